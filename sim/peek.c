/* Read-only accessors to internal session fields, used for coverage probes and for aiming
 * faults (never by an oracle), plus the few things the public headers keep opaque. */
#include "matrixssl/matrixsslImpl.h"
#include "peek.h"

int vsim_peek_hs_state(const ssl_t *ssl) { return ssl ? ssl->hsState : -1; }
uint32_t vsim_peek_flags(const ssl_t *ssl) { return ssl ? ssl->flags : 0; }
uint32_t vsim_peek_bflags(const ssl_t *ssl) { return ssl ? ssl->bFlags : 0; }
void *vsim_peek_userptr(const ssl_t *ssl) { return ssl ? ssl->userPtr : NULL; }
size_t vsim_sizeof_ssl(void) { return sizeof(ssl_t); }
int vsim_peek_outlen(const ssl_t *ssl) { return ssl ? ssl->outlen : 0; }
int vsim_peek_inlen(const ssl_t *ssl) { return ssl ? ssl->inlen : 0; }
#ifdef USE_TLS_1_3
int vsim_peek_tls13_group(const ssl_t *ssl) { return ssl ? ssl->tls13NegotiatedGroup : 0; }
#else
int vsim_peek_tls13_group(const ssl_t *ssl) { (void) ssl; return 0; }
#endif
int vsim_peek_insize(const ssl_t *ssl) { return ssl ? ssl->insize : 0; }
int vsim_peek_outsize(const ssl_t *ssl) { return ssl ? ssl->outsize : 0; }
const void *vsim_peek_outbuf(const ssl_t *ssl) { return ssl ? ssl->outbuf : 0; }
int vsim_peek_err(const ssl_t *ssl) { return ssl ? ssl->err : 0; }
#ifdef USE_DTLS
int vsim_peek_dtls_flight_done(const ssl_t *ssl) { return ssl ? ssl->flightDone : 0; }
int vsim_peek_dtls_appdata_exch(const ssl_t *ssl) { return ssl ? ssl->appDataExch : 0; }
#else
int vsim_peek_dtls_flight_done(const ssl_t *ssl) { return 0; }
int vsim_peek_dtls_appdata_exch(const ssl_t *ssl) { return 0; }
#endif
int vsim_peek_session_id(const ssl_t *ssl, unsigned char *out, int max)
{
    int n = ssl ? ssl->sessionIdLen : 0;
    if (n > max) { n = max; }
    if (n > 0) { memcpy(out, ssl->sessionId, n); }
    return n;
}
int vsim_peek_master_secret_digest(const ssl_t *ssl, unsigned long long *out)
{
    extern unsigned long long vsim_fnv(const void *, size_t);
    if (!ssl) { return -1; }
    *out = vsim_fnv(ssl->sec.masterSecret, SSL_HS_MASTER_SIZE);
    return 0;
}
int vsim_peek_master_secret(const ssl_t *ssl, unsigned char out[48]) { if (!ssl) { return -1; } memcpy(out, ssl->sec.masterSecret, 48); return 0; }
int vsim_load_tls13_psk(sslKeys_t *keys, const unsigned char *key, int keyLen, const unsigned char *id, int idLen,
    int maxEarly, int cipherId)
{
#ifdef USE_TLS_1_3
    psTls13SessionParams_t p;
    memset(&p, 0, sizeof p);
    p.maxEarlyData = maxEarly;
    p.cipherId = cipherId;
    return matrixSslLoadTls13Psk(keys, key, keyLen, id, idLen, &p);
#else
    return -1;
#endif
}
/* sslSessionId_t is opaque in the API headers: expose what the resumption model needs */
int vsim_sid_info(const sslSessionId_t *sid, int *idLen, int *ticketLen, int *hasPsk, unsigned int *cipherId)
{
    if (!sid) { return -1; }
    *idLen = sid->idLen;
#ifdef USE_STATELESS_SESSION_TICKETS
    *ticketLen = sid->sessionTicket ? sid->sessionTicketLen : 0;
#else
    *ticketLen = 0;
#endif
#ifdef USE_TLS_1_3
    *hasPsk = sid->psk != NULL;
#else
    *hasPsk = 0;
#endif
    *cipherId = sid->cipherId;
    return 0;
}
unsigned char *vsim_sid_id_bytes(sslSessionId_t *sid) { return sid->id; }
void vsim_sid_set_idlen(sslSessionId_t *sid, int n) { sid->idLen = n; }
unsigned char *vsim_sid_master(sslSessionId_t *sid) { return sid->masterSecret; }
void vsim_sid_set_cipher(sslSessionId_t *sid, unsigned int cipherId) { sid->cipherId = cipherId; }
unsigned char *vsim_sid_ticket(sslSessionId_t *sid, int *len)
{
#ifdef USE_STATELESS_SESSION_TICKETS
    *len = sid->sessionTicketLen; return sid->sessionTicket;
#else
    *len = 0; return NULL;
#endif
}
void vsim_sid_set_ticket_len(sslSessionId_t *sid, int n)
{
#ifdef USE_STATELESS_SESSION_TICKETS
    sid->sessionTicketLen = n;
#endif
}
#ifdef USE_TLS_1_3
unsigned char *vsim_sid_psk_id(sslSessionId_t *sid, int *len)
{
    if (!sid->psk) { *len = 0; return NULL; }
    *len = sid->psk->pskIdLen; return sid->psk->pskId;
}
unsigned char *vsim_sid_psk_key(sslSessionId_t *sid, int *len)
{
    if (!sid->psk) { *len = 0; return NULL; }
    *len = sid->psk->pskLen; return sid->psk->pskKey;
}
#else
unsigned char *vsim_sid_psk_id(sslSessionId_t *sid, int *len) { *len = 0; return NULL; }
unsigned char *vsim_sid_psk_key(sslSessionId_t *sid, int *len) { *len = 0; return NULL; }
#endif
int vsim_peek_ems(const ssl_t *ssl) { return ssl ? ssl->extFlags.extended_master_secret : 0; }

/* A server that asks for renegotiation: HelloRequest sealed under the session's write state and queued in its output buffer.  (The encoder
 * is exported by the library in every build; the public wrapper exists only with USE_REHANDSHAKING.  To the CLIENT this is what any peer
 * stack that supports renegotiation may send.) */
int vsim_encode_hello_request(ssl_t *ssl)
{
#ifdef USE_SERVER_SIDE_SSL
    sslBuf_t sbuf; uint32 req = 0; int32 rc;
    extern int32 matrixSslEncodeHelloRequest(ssl_t *ssl, sslBuf_t *out, uint32 *requiredLen);
    if (!ssl || !ssl->outbuf || ssl->outsize - ssl->outlen < 128) { return -1; }
    sbuf.buf = sbuf.start = sbuf.end = ssl->outbuf + ssl->outlen;
    sbuf.size = ssl->outsize - ssl->outlen;
    rc = matrixSslEncodeHelloRequest(ssl, &sbuf, &req);
    if (rc < 0) { return rc; }
    ssl->outlen += (int32) (sbuf.end - sbuf.start);
    return 0;
#else
    (void) ssl; return -1;
#endif
}

/* Byzantine TLS 1.3 server (the only writer among these helpers, used on the ROGUE node only): a server that answers every ClientHello
 * with "pre_shared_key selected" although no PSK was offered or agreed - it then sends ServerHello{key_share, pre_shared_key(0)},
 * EncryptedExtensions, Finished keyed from the all-zero PSK and never a Certificate.  Stands for a hand-written malicious server. */
void vsim_poke_tls13_using_psk(ssl_t *ssl)
{
#ifdef USE_TLS_1_3
    if (ssl) { ssl->sec.tls13UsingPsk = PS_TRUE; }
#else
    (void) ssl;
#endif
}

/* byzantine peer: account a foreign handshake message in this node's own running transcript (TLS <= 1.2) */
void vsim_byz_update_hash(const void *ssl, const unsigned char *msg, size_t len)
{
    if (ssl && msg && len) { (void) sslUpdateHSHash((ssl_t *) ssl, msg, (psSize_t) len); }
}
