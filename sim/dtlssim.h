// dtls engine: discrete-event datagram network with per-datagram fates, application-style resend timers,
// replay of captured records.  Used by C16 (and C17's DTLS workloads).
#pragma once
#include "driver.h"
#include "world.h"
#include "sealaudit.h"
#include <queue>

struct DgFate { int kind = 0; int64_t a = 0; };      // 0 deliver, 1 drop, 2 dup (second copy after a ms), 3 delay by a ms
enum { FATE_DELIVER = 0, FATE_DROP = 1, FATE_DUP = 2, FATE_DELAY = 3 };

struct DtlsEvent {
    int64_t at; uint64_t seq; int type;   // 0 deliver datagram, 1 timer, 2 app send, 3 replay captured datagram, 4 probe
    int dir; Bytes data; int64_t a = 0, b = 0; bool is_replay = false; int emit_index = -1;
    bool operator<(const DtlsEvent &o) const { return at != o.at ? at > o.at : seq > o.seq; }
};

struct DtlsSentDg { int dir; int emit_index; Bytes data; int64_t at; bool handshake_phase; std::vector<Record> recs; };

class DtlsSim {
  public:
    const Plan &plan;
    PairCfg pc;
    TlsWorld w;                       // only for key setup / endpoint creation (its wire is unused)
    std::priority_queue<DtlsEvent> q;
    int64_t now = 0; uint64_t seqno = 0;
    std::map<int, DgFate> fates;      // by global emission index
    std::vector<DtlsSentDg> emitted;  // every datagram the endpoints produced, in emission order
    int emit_count = 0;
    // timers
    struct Timer { bool armed = false; int64_t at = 0; int64_t timeout = 1000; int fires = 0; uint64_t gen = 0; } timer[2];
    int64_t last_fault_time = 0;
    int fires_after_heal[2] = { 0, 0 };
    int64_t complete_time[2] = { -1, -1 };
    // application traffic
    std::vector<Bytes> app_sent[2];
    std::map<std::string, int64_t> counters;
    std::vector<std::string> states;
    int events_run = 0;
    bool setup_failed = false; std::string setup_detail;
    bool event_cap_hit = false;
    std::string last_fault_kind = "none";
    std::string last_replayed_kind = "none";   // kind of the most recent replayed record (for signatures)
    int pmtu = 1500;
    int speak = 0;                    // bit r: the application of role r sends a datagram the moment its side reports completion (before it has received anything)
    int complete_event[2] = { -1, -1 };   // event index at which each node was first seen complete
    bool post_completion_resend = false;  // a node that had already completed emitted handshake/CCS records again (final-flight resend)
    SealAudit audit;
    bool faults_enabled = true;       // cleared for the final probes ("once faults stop")

    explicit DtlsSim(const Plan &p);
    ~DtlsSim();
    bool start();                     // setup keys, create endpoints, client hello queued
    void run_until(int64_t t_end, int max_events);
    void push(DtlsEvent e) { e.seq = seqno++; q.push(e); }
    void flush(int role);             // pull every pending datagram of a node, apply fates, schedule deliveries
    void arm_timer(int role);
    MxEndpoint &ep(int role) { return role == 0 ? *w.cli : *w.srv; }
    void schedule_app_send(int64_t at, int role, size_t len);
    void schedule_replay(int64_t at, int emit_index);
    // standard schedule: handshake phase until both complete or the liveness budget after the last fault is spent, then the
    // application phase (app / afate / areplay ops) and, if asked, the final fault-free probes. Returns true if both completed.
    bool run_plan(bool with_probes, size_t *probe_before = nullptr);
    size_t hs_dgrams = 0; bool dead_after_app = false;
    uint64_t fingerprint();
    static std::string record_kind(const Record &r);
};
