// proto engine: one client/server pair, an on-path adversary, explicit op schedule.
// Shared by C01, C02, C15 (and reused by C06/C08/C17 with their own generators and oracles).
#pragma once
#include "driver.h"
#include "world.h"
#include "sealaudit.h"

struct DeathInfo {
    bool dead = false;
    std::string kind;         // D1 error, D2 fatal alert in / close_notify in, D3 alert out
    size_t events_at = 0;     // endpoint event index when death was first observed
    size_t delivered_at = 0;  // number of chunks delivered when death was observed
};

struct SealRec { int node; int kind; uint64_t key_id; Bytes nonce; uint64_t aad, pt; int pt_len; unsigned char inner_type; unsigned char hs_type; uint64_t seq; int rc; };

struct ProtoObs {
    // per direction (sender side index: 0 = client->server, 1 = server->client)
    std::vector<Bytes> sent[2];            // application payloads accepted by the sender's encode call, in order
    std::vector<Bytes> early_sent;         // client early data
    bool fault_fired[2] = { false, false };  // any fault (including a drop with nothing after it) fired in this direction
    bool tampered[2] = { false, false };   // a modified/forged/replayed record was put on the wire toward the receiver of this direction
    size_t delivered_before_tamper[2] = { 0, 0 };   // receiver's delivered chunk count when the first tampered unit was handed over
    size_t delivered_bytes_before_tamper[2] = { 0, 0 };
    bool tamper_consumed[2] = { false, false };
    std::string tamper_kind[2];
    int tamper_hs_state[2] = { -1, -1 };
    bool tamper_receiver_complete[2] = { false, false };
    bool tamper_is_modification[2] = { false, false };   // an honest protected record was altered (C02 demands death)
    size_t out_bytes_after_tamper[2] = { 0, 0 };        // bytes the receiver emitted after consuming the tampered unit
    DeathInfo death[2];                    // index by node role: 0 client, 1 server
    // things observed after death
    int appdata_after_death[2] = { 0, 0 };
    int encode_ok_after_death[2] = { 0, 0 };
    int success_rc_after_death[2] = { 0, 0 };
    std::string success_api_after_death[2];
    int nonalert_records_after_death[2] = { 0, 0 };
    std::string nonalert_after_death_what[2];
    // encode attempts before completion
    int encode_ok_before_complete[2] = { 0, 0 };
    bool hs_done = false;
    // ground truth from the harness: a well-formed fatal alert record was handed to this role while it read plaintext
    bool fatal_alert_given[2] = { false, false }; int fatal_alert_desc[2] = { -1, -1 };
    bool ccs_given[2] = { false, false };      // some change_cipher_spec record (honest or not) was handed to this role
    // TLS 1.3 early data
    int early_write_ok = 0, early_write_refused = 0, early_write_unpermitted = 0;   // unpermitted: accepted although matrixSslGetMaxEarlyData() was 0
    int aead_fail[2] = {0, 0};                 // AEAD open failures seen inside each endpoint (seam probe on the decrypt primitive)
    int aead_fail_survived[2] = {0, 0};        // ... after which the session was not dead when the call returned
    std::string aead_fail_survived_ctx[2];
    size_t skipped_undecryptable_bytes = 0;   // protected records a TLS 1.3 server swallowed before completion without progress, delivery, output or death
    int skipped_records = 0;
    std::vector<SealRec> seals;
    std::vector<std::string> states;
    std::map<std::string, int64_t> counters;
};

class ProtoRun {
  public:
    const Plan &plan;
    TlsWorld w;
    ProtoObs obs;
    PairCfg pc;
    Rng opr;
    std::vector<Record> sibling[2];      // records captured from a sibling session (other keys), for cross-session injection
    // armed one-shot mutation for the next honest record of a direction
    struct Armed { bool on = false; std::string kind; int64_t a = 0, b = 0; int64_t skip = 0; } armed[2];   // skip: let that many honest records of the direction pass first
    bool setup_failed = false;
    std::string setup_detail;
    bool captured_reset = false;
    bool pending_gap[2] = { false, false }, gap_is_mod[2] = { false, false }, swap_pending[2] = { false, false };
    Bytes held_b[2]; bool held_mod[2] = { false, false }, have_held[2] = { false, false };
    Bytes glue_b[2]; bool have_glue[2] = { false, false };   // glue_ccs with b&1: waits for the next record of the direction
    int encode_attempts = 0;
    size_t next_honest[2] = { 0, 0 };      // TLS: index of the next honest record the receiver of this direction has not been given yet
    SealAudit audit;                       // C17 oracle state (fed by every probe)
    bool ccs_emitted[2] = { false, false };
    uint64_t probe_next = 0;               // next probe sequence number (all probe kinds)
    uint64_t seal_seq_at_death[2] = { 0, 0 };
    std::function<void(MxEndpoint &, const char *)> on_api;   // installed on both endpoints of the measured connection
    int split = 0;                         // TLS: feed every unit in 1+split pieces

    explicit ProtoRun(const Plan &p);
    ~ProtoRun();
    void run();                           // executes all ops
    uint64_t fingerprint();
    // helpers
    int role_of_receiver(int dir) const { return dir == DIR_C2S ? 1 : 0; }
    void note_tamper(int dir, const std::string &kind, bool is_modification);
    void after_event();                   // update death info for both endpoints
  private:
    void do_op(const Op &op);
    void deliver_all();
    void hand_to_receiver(int dir, const Bytes &unit, bool tampered, const std::string &kind, bool is_mod);
    Bytes craft(int dir, const Op &op, bool &is_mod, std::string &kind);
    void filter_record(Record &r, std::vector<Bytes> &out);
    static void probe_cb(const vsim_probe_t *p, void *arg);
    void check_after_death_output(int role, const Bytes &out);
};

// shared cfg generator: draws version/suite/auth/resumption consistent with each other
void gen_pair_cfg(Rng &r, Plan &p, bool allow_dtls, bool allow_tls13 = true);
std::string cfg_label(const Plan &p);
