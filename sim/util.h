// Small utilities: PRNG, hashing, plan (JSON) serialisation.
#pragma once
#include <cstdint>
#include <cstdio>
#include <cstring>
#include <map>
#include <set>
#include <string>
#include <vector>

typedef std::vector<unsigned char> Bytes;

struct Rng {
    uint64_t s;
    explicit Rng(uint64_t seed = 1) : s(seed ^ 0x9E3779B97F4A7C15ULL) { next(); }
    uint64_t next() {
        uint64_t z = (s += 0x9E3779B97F4A7C15ULL);
        z = (z ^ (z >> 30)) * 0xBF58476D1CE4E5B9ULL;
        z = (z ^ (z >> 27)) * 0x94D049BB133111EBULL;
        return z ^ (z >> 31);
    }
    uint64_t below(uint64_t n) { return n ? next() % n : 0; }
    int64_t range(int64_t lo, int64_t hi) { return lo + (int64_t) below((uint64_t) (hi - lo + 1)); }
    bool chance(int num, int den) { return (int) below((uint64_t) den) < num; }
    template <class T> const T &pick(const std::vector<T> &v) { return v[below(v.size())]; }
};

static inline uint64_t mix64(uint64_t a, uint64_t b) {
    uint64_t z = a * 0x9E3779B97F4A7C15ULL + b + 0x7F4A7C15ULL;
    z = (z ^ (z >> 30)) * 0xBF58476D1CE4E5B9ULL;
    z = (z ^ (z >> 27)) * 0x94D049BB133111EBULL;
    return z ^ (z >> 31);
}
static inline uint64_t hash_str(const std::string &s, uint64_t h = 1469598103934665603ULL) {
    for (unsigned char c : s) { h ^= c; h *= 1099511628211ULL; }
    return h;
}
static inline uint64_t hash_bytes(const unsigned char *p, size_t n, uint64_t h = 1469598103934665603ULL) {
    for (size_t i = 0; i < n; i++) { h ^= p[i]; h *= 1099511628211ULL; }
    return h;
}
// derive an independent stream from (seed, label) so that removing ops never shifts others' randomness
static inline uint64_t derive(uint64_t seed, const std::string &label, uint64_t k = 0) {
    return mix64(mix64(seed, hash_str(label)), k);
}

struct Fingerprint {
    uint64_t a = 1469598103934665603ULL, b = 0x12345678ABCDEFULL;
    uint64_t n = 0;
    void add(uint64_t v) { a = mix64(a, v); b = mix64(b ^ v, n++); }
    void add(const std::string &s) { add(hash_str(s)); }
    void add(const unsigned char *p, size_t len) { add(hash_bytes(p, len)); add((uint64_t) len); }
    uint64_t value() const { return mix64(a, b); }
};

std::string hex(const unsigned char *p, size_t n);
std::string hex(const Bytes &b);
Bytes unhex(const std::string &s);
std::string u64hex(uint64_t v);

// ------------------------------------------------------------------ plans
struct Op {
    std::string k;                 // kind
    int64_t a = 0, b = 0, c = 0, d = 0;
    std::string s;                 // optional string argument
    Op() {}
    Op(const std::string &k_, int64_t a_ = 0, int64_t b_ = 0, int64_t c_ = 0, int64_t d_ = 0, const std::string &s_ = "")
        : k(k_), a(a_), b(b_), c(c_), d(d_), s(s_) {}
    std::string str() const;
};

struct Plan {
    std::string prop;
    uint64_t seed = 0;
    std::map<std::string, int64_t> cfg;
    std::map<std::string, std::string> scfg;
    std::vector<Op> ops;
    int64_t get(const std::string &k, int64_t dflt = 0) const { auto it = cfg.find(k); return it == cfg.end() ? dflt : it->second; }
    std::string gets(const std::string &k, const std::string &dflt = "") const { auto it = scfg.find(k); return it == scfg.end() ? dflt : it->second; }
    std::string json() const;
    static bool parse(const std::string &txt, Plan &out, std::string *expected_cls = nullptr, std::string *expected_sig = nullptr);
    uint64_t digest() const { return hash_str(json()); }
};

std::string json_escape(const std::string &s);
bool read_file(const std::string &path, std::string &out);
bool write_file(const std::string &path, const std::string &txt);
