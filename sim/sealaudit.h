// SealAudit: oracle over the recorded history of AEAD seals and CBC record encryptions (C17).
#pragma once
#include "util.h"
#include "seams.h"
#include <map>
#include <set>

struct SealAudit {
    struct Sess { uintptr_t lo, hi; int node; bool dtls; };
    std::vector<Sess> sessions;                         // address ranges of live ssl_t objects
    struct Seen { uint64_t aad, pt; int pt_len; };
    std::map<std::pair<uint64_t, std::string>, Seen> aead;   // (session-key id, nonce) -> what was sealed
    std::map<uint64_t, std::string> last_explicit;      // TLS 1.2 GCM: last explicit nonce per key (must increase)
    std::map<uint64_t, std::set<std::string> > cbc_ivs; // per key: first ciphertext blocks seen
    std::map<uint64_t, std::string> cbc_last_block;     // per key: last ciphertext block of the previous record
    std::set<uint64_t> used_draws;                        // entropy draws already consumed as an explicit IV
    std::map<uintptr_t, std::set<std::string> > fresh_iv_ct;  // per session: first ciphertext blocks of CBC calls whose first plaintext block was a fresh 16-byte draw
    std::map<uintptr_t, std::set<std::string> > wire_ivs;     // per session: explicit IV blocks seen on the wire
    std::map<uint64_t, bool> cbc_continuation;           // per key: the explicit IV block was encrypted in a call of its own, the rest of the record follows
    uint64_t last_draw_seq = 0;
    // results
    std::string violation_cls, violation_ctx, violation_detail;
    std::map<std::string, int64_t> counters;
    bool tls12_gcm_seq_check = true;

    void add_session(const void *ssl, size_t size, int node, bool dtls) { sessions.push_back({ (uintptr_t) ssl, (uintptr_t) ssl + size, node, dtls }); }
    const Sess *find(uintptr_t ctx) const { for (auto &s : sessions) { if (ctx >= s.lo && ctx < s.hi) { return &s; } } return nullptr; }
    void fail(const std::string &cls, const std::string &ctx, const std::string &d) { if (violation_cls.empty()) { violation_cls = cls; violation_ctx = ctx; violation_detail = d; } }
    void on_probe(const vsim_probe_t *p);
    // a CBC-protected record this session put on the wire (body = bytes after the record header)
    void on_wire_cbc_record(const void *ssl, const unsigned char *body, size_t n, bool dtls);
    // a TLS 1.2 AES-GCM record this session put on the wire: the 8-byte explicit nonce leads the body and is the record sequence number
    void on_wire_gcm12_record(const void *ssl, const unsigned char *body, size_t n);
    std::map<uintptr_t, std::string> wire_gcm_last;      // per session: explicit nonce of its previous GCM record (reset when the sender changes keys)
    // a protected DTLS record (epoch > 0) this session put on the wire: the explicit epoch/sequence number is bound into its MAC or nonce
    void on_wire_dtls_record(const void *ssl, unsigned epoch, uint64_t seq, const unsigned char *raw, size_t n);
    std::map<std::pair<uintptr_t, std::pair<unsigned, uint64_t> >, uint64_t> dtls_numbers;   // (session, epoch, sequence number) -> digest of the record sent under it
};
