/* Thread engine scheduler interface (see nosan_sched.c). */
#ifndef VSIM_SCHED_H
#define VSIM_SCHED_H
#include <stdint.h>
#ifdef __cplusplus
extern "C" {
#endif
#define VS_MAX_THREADS 8
enum { VS_K_MUTEX = 0, VS_K_ALLOC = 1, VS_K_CLOCK = 2, VS_K_ENTROPY = 3, VS_K_YIELD = 4 };
typedef struct {
    uint64_t seed;
    unsigned switch_den;      /* random mode: switch with probability 1/switch_den at an enabled scheduling point */
    unsigned kind_mask;       /* which kinds of scheduling point are enabled (bit per VS_K_*) */
    int pct_depth;            /* >0: priority mode (PCT): run the highest-priority runnable thread, with pct_depth seeded priority drops */
    unsigned pct_span;        /* priority drops are placed among the first pct_span scheduling points */
} vs_cfg_t;
typedef struct { uint64_t switches, points, schedule_hash, contended_locks, max_blocked, kind_count[8]; } vs_stats_t;
/* run fn(thread_index 1..n, args[i-1]) on n real threads, one at a time, under the seeded scheduler; returns when all are done.
   A state with blocked threads and no runnable one prints "VSIM-DEADLOCK ..." and exits the process with status 80. */
int vs_run(int n, void (*fn)(int, void *), void **args, const vs_cfg_t *cfg, vs_stats_t *st);
void vs_point(int kind);
void vs_mutex_before_lock(const void *m);
void vs_mutex_after_unlock(const void *m);
int vs_active(void);
int vs_self(void);
uint64_t vs_event_seq(void);      /* global event sequence number (invoke/return stamps of the history) */
#ifdef __cplusplus
}
#endif
#endif
