// C20 - concurrent sessions sharing keys and caches are race-free and serializable.
// Thread engine: N real pthreads, each driving its own client/server pairs against ONE server key set (identity, CA list, ticket keys,
// ephemeral ECDHE cache), optionally ONE client key set (CA list), the global session cache and the library PRNG.  Exactly one thread runs
// at a time; the seeded scheduler (nosan_sched.c) picks the next thread at every seam call (mutex lock/unlock, allocation, clock, entropy).
// The hand-off is invisible to ThreadSanitizer, so its happens-before graph holds only the library's own synchronisation: a pair of
// conflicting accesses not ordered by the library's locks is reported even though the threads never ran in parallel.
// Built twice (tsan, asan); the same plan is the same schedule family in both.
#include "driver.h"
#include "world.h"
#include "peek.h"
#include "vsched.h"
#include "ossl.h"
#include "keys.h"
extern "C" {
#include "crypto/cryptoApi.h"
}

namespace {

struct Outcome {
    int thread = 0, opi = 0; std::string kind;
    uint64_t inv = 0, ret = 0;              // global event sequence numbers at invoke / return
    bool ok = false, resumed_s = false, resumed_c = false, data_ok = false;
    std::string mech = "none";              // what the client presented: id / ticket / psk13 / none
    int ticket_key = -1;                    // key id that minted the presented ticket (by key name)
    int ver = 0; int err_c = 0, err_s = 0;
    int key_id = -1; int rc = 0;            // rotate ops
    bool after_fatal = false;               // an earlier operation of this thread had a fatal alert hit a session of the presented id
    bool srv_alerted = false;               // fatalres: the server did send a fatal alert
    bool after_failure = false;             // an earlier connection of this thread failed (e.g. aborted EMS-mismatch resumption): what the client still holds is its own business
    bool ems_flip = false;                  // the stored TLS <= 1.2 session is presented WITHOUT the extended_master_secret extension it was made with
};

struct Shared {
    sslKeys_t *skeys = nullptr;
    sslKeys_t *ckeys_shared = nullptr;
    int server_kind = KK_EC256;
    bool crl_mode = false;                   // clients validate strictly; a CRL thread inserts / clears CRLs in the global CRL cache
    psX509Crl_t *crl[2] = { nullptr, nullptr };   // [0] revokes nothing, [1] revokes the server's certificate (both authenticated against the CA)
    psX509Cert_t *ca = nullptr;
    bool crl_owned = false;                  // cfg crl=2: every insertion parses a fresh (not yet authenticated) CRL and hands it to the cache with deleteExisting=1; clear = psCRL_DeleteAll
    Bytes crl_der[2];
};

struct ThreadCtx {
    int idx = 0; Shared *sh = nullptr;
    sslKeys_t *ckeys = nullptr; sslSessionId_t *sid = nullptr;
    std::vector<Op> ops;
    std::vector<Outcome> out;
    uint64_t fp = 0;
    std::vector<std::unique_ptr<TlsWorld>> held;   // connections this thread keeps open across later operations (several holders of one cache entry)
    int failed_since_full = 0;
    int sess_ems = 1;                              // was the session this thread's client currently holds made with extended_master_secret?
    int fatal_since_full = 0;                      // a fatal alert hit a session of this thread's current id since its last full handshake
};

int key_id_of_name(const unsigned char *name) {
    for (int id = 1; id < 40; id++) { unsigned char n[16], s[32], m[32]; ticket_key_material(id, n, s, m); if (!memcmp(n, name, 16)) { return id; } }
    return -1;
}

void run_conn(ThreadCtx &T, const Op &op, int opi) {
    Outcome o; o.thread = T.idx; o.opi = opi; o.kind = op.k;
    static const uint32_t V[] = { v_tls_1_2, v_tls_1_3, v_tls_1_1 };
    int ver = (int) ((uint64_t) op.b % 3); o.ver = ver;
    bool tls13 = ver == 1;
    bool tickets = (op.d & 1) != 0 || tls13;
    PairCfg pc;
    pc.versions_c = { V[ver] }; pc.versions_s = { v_tls_1_3, v_tls_1_2, v_tls_1_1 };
    pc.server_identity = T.sh->server_kind; pc.tickets = tickets;
    if (tls13) { pc.suites = { TLS_AES_128_GCM_SHA256 }; }
    else if (T.sh->server_kind == KK_EC256) { pc.suites = { (uint16_t) (ver == 0 && (op.c & 2) ? TLS_ECDHE_ECDSA_WITH_AES_128_GCM_SHA256 : TLS_ECDHE_ECDSA_WITH_AES_128_CBC_SHA) }; }
    else { pc.suites = { (uint16_t) ((op.c & 2) ? TLS_RSA_WITH_AES_128_CBC_SHA : (ver == 0 ? TLS_ECDHE_RSA_WITH_AES_128_GCM_SHA256 : TLS_ECDHE_RSA_WITH_AES_128_CBC_SHA)) }; }
    if (T.sh->crl_mode) { pc.cb_c = CB_STRICT; }
    if ((op.d & 4) && !tls13 && op.k != "full") { pc.ems_c = -1; }
    int ems_now = pc.ems_c == -1 ? 0 : 1;
    o.ems_flip = !tls13 && op.k != "full" && ems_now != T.sess_ems;     // RFC 7627: the server must refuse to resume such a session and do a full handshake
    pc.groups_c = { (uint16_t) ((op.c & 1) ? 24 : 23) };     // secp384r1 / secp256r1: alternates the shared ephemeral-key cache between hit and regenerate
    if (op.k == "full") { vsim_set_node(NODE_HARNESS); matrixSslClearSessionId(T.sid); }
    // what is presented
    {
        int idLen = 0, tLen = 0, hasPsk = 0; unsigned int cid = 0;
        vsim_sid_info((struct sslSessionId *) T.sid, &idLen, &tLen, &hasPsk, &cid);
        if (tls13 && hasPsk) { int l = 0; unsigned char *t = vsim_sid_psk_id((struct sslSessionId *) T.sid, &l); if (t && l >= 16) { o.mech = "psk13"; o.ticket_key = key_id_of_name(t); } }
        else if (!tls13 && tickets && tLen >= 16) { int l = 0; unsigned char *t = vsim_sid_ticket((struct sslSessionId *) T.sid, &l); if (t && l >= 16) { o.mech = "ticket"; o.ticket_key = key_id_of_name(t); } }
        else if (!tls13 && idLen > 0) { o.mech = "id"; }
    }
    bool hold = op.k == "hold", fatal = op.k == "fatalres";
    if (op.k == "full") { T.fatal_since_full = 0; }
    o.after_fatal = T.fatal_since_full > 0; o.after_failure = T.failed_since_full > 0;
    o.inv = vs_event_seq();
    std::unique_ptr<TlsWorld> wp(new TlsWorld()); TlsWorld &w = *wp;
    w.adopt(T.sh->skeys, T.ckeys, T.sid, pc);
    bool armed = false;
    if (fatal) { w.filter = [&armed](Record &r, std::vector<Bytes> &out) { Bytes b = r.raw; if (armed && r.dir == DIR_C2S && r.type == 23 && b.size() > 8) { b[b.size() - 3] ^= 0x10; armed = false; } out.push_back(b); }; }
    if (w.connect()) {
        o.ok = w.handshake();
        o.resumed_s = o.ok && w.srv->is_resumed(); o.resumed_c = o.ok && w.cli->is_resumed();
        o.err_c = w.cli->first_error; o.err_s = w.srv->first_error;
        if (o.ok && !o.resumed_s) { T.fatal_since_full = 0; T.failed_since_full = 0; T.sess_ems = tls13 ? 1 : ems_now; }
        if (!o.ok) { T.failed_since_full++; }     // a new session was established: the client now holds a fresh id
        if (o.ok) {
            Bytes a = tagged_payload(0, T.idx * 100 + opi, 60 + (size_t) T.idx), b = tagged_payload(1, T.idx * 100 + opi, 90 + (size_t) opi);
            w.cli->app_send(a.data(), a.size()); w.srv->app_send(b.data(), b.size()); w.pump();
            o.data_ok = w.srv->delivered.size() == 1 && w.srv->delivered[0] == a && w.cli->delivered.size() == 1 && w.cli->delivered[0] == b;
            if (fatal) {
                // a damaged record reaches the server: it answers with a fatal alert and (TLS <= 1.2) must invalidate the cached session
                armed = true; Bytes x = tagged_payload(0, 7000 + T.idx * 100 + opi, 33); w.cli->app_send(x.data(), x.size()); w.pump();
                o.srv_alerted = w.srv->got_error || w.srv->request_close; T.fatal_since_full++;
            } else if (!hold) { w.cli->app_close(); w.pump(); }
        }
    }
    o.ret = vs_event_seq();
    T.fp = mix64(T.fp, mix64((uint64_t) o.ok * 8 + (uint64_t) o.resumed_s * 4 + (uint64_t) o.resumed_c * 2 + (uint64_t) o.data_ok, w.fingerprint()));
    if (hold && o.ok) { w.filter = nullptr; T.held.push_back(std::move(wp)); T.out.push_back(o); return; }
    w.filter = nullptr;
    w.close_sessions();
    w.teardown();
    T.out.push_back(o);
}

void run_release(ThreadCtx &T, int opi) {
    if (T.held.empty()) { return; }
    Outcome o; o.thread = T.idx; o.opi = opi; o.kind = "release";
    std::unique_ptr<TlsWorld> wp = std::move(T.held.front()); T.held.erase(T.held.begin());
    o.inv = vs_event_seq();
    if (wp->cli && wp->cli->alive()) { wp->cli->app_close(); wp->pump(); }
    wp->close_sessions(); wp->teardown();
    o.ret = vs_event_seq();
    T.out.push_back(o);
}

void run_rotate(ThreadCtx &T, const Op &op, int opi) {
    // load a new ticket key, then retire an old one (the one named by op.c if it is loaded)
    int add = (int) (10 + T.idx * 5 + opi), del = (int) (1 + (uint64_t) op.c % 3);
    unsigned char name[16], sym[32], mac[32];
    vsim_set_node(NODE_SERVER);
    Outcome a; a.thread = T.idx; a.opi = opi; a.kind = "key_add"; a.key_id = add;
    ticket_key_material(add, name, sym, mac);
    a.inv = vs_event_seq(); a.rc = matrixSslLoadSessionTicketKeys(T.sh->skeys, name, sym, 32, mac, 32); a.ret = vs_event_seq();
    T.out.push_back(a);
    Outcome d; d.thread = T.idx; d.opi = opi; d.kind = "key_del"; d.key_id = del;
    ticket_key_material(del, name, sym, mac);
    d.inv = vs_event_seq(); d.rc = matrixSslDeleteSessionTicketKey(T.sh->skeys, name); d.ret = vs_event_seq();
    T.out.push_back(d);
    T.fp = mix64(T.fp, (uint64_t) (a.rc >= 0) * 2 + (uint64_t) (d.rc >= 0));
}

// application ticket-key callback (runs with the library's ticket lock released): accept a cached key, refuse an unknown one
int32 ticket_cb(void *keys, unsigned char name[16], short found) {
    (void) keys; (void) name;
    vs_point(VS_K_YIELD);
    return found ? 0 : -1;
}

void run_crl(ThreadCtx &T, const Op &op, int opi) {
    Outcome o; o.thread = T.idx; o.opi = opi;
    vsim_set_node(NODE_HARNESS);
    if (op.k == "crl_clear") { o.kind = "crl_clear"; o.inv = vs_event_seq(); if (T.sh->crl_owned) { psCRL_DeleteAll(); } else { psCRL_RemoveAll(); } o.ret = vs_event_seq(); }
    else if (T.sh->crl_owned) {
        // a CRL refresh as an application does it: parse what was downloaded, authenticate it against the CA, let the cache replace (and free)
        // the previous CRL of that issuer
        int which = (int) (op.b & 1); o.kind = which ? "crl_add_revoking" : "crl_add_clean";
        psX509Crl_t *c = nullptr;
        o.inv = vs_event_seq();
        if (psX509ParseCRL(nullptr, &c, T.sh->crl_der[which].data(), (int32) T.sh->crl_der[which].size()) < 0) { o.rc = -1; }
        else if (psX509AuthenticateCRL(T.sh->ca, c, nullptr) < 0) { o.rc = -2; psX509FreeCRL(c); }     // the application authenticates what it downloaded before caching it
        else { o.rc = psCRL_Update(c, 1); if (o.rc < 0) { psX509FreeCRL(c); } }
        o.ret = vs_event_seq();
    }
    else { int which = (int) (op.b & 1); o.kind = which ? "crl_add_revoking" : "crl_add_clean"; o.inv = vs_event_seq(); o.rc = psCRL_Update(T.sh->crl[which], 0); o.ret = vs_event_seq(); }
    T.out.push_back(o);
    T.fp = mix64(T.fp, hash_str(o.kind.c_str()));
}

void thread_main(int idx, void *arg) {
    ThreadCtx &T = *(ThreadCtx *) arg;
    (void) idx;
    for (size_t i = 0; i < T.ops.size(); i++) {
        const Op &op = T.ops[i];
        if (op.k == "full" || op.k == "resume" || op.k == "hold" || op.k == "fatalres") { run_conn(T, op, (int) i); }
        else if (op.k == "release") { run_release(T, (int) i); }
        else if (op.k == "rotate") { run_rotate(T, op, (int) i); }
        else if ((op.k == "crl_add" || op.k == "crl_clear") && T.sh->crl_mode) { run_crl(T, op, (int) i); }
        vs_point(VS_K_YIELD);
    }
    while (!T.held.empty()) { run_release(T, (int) T.ops.size()); vs_point(VS_K_YIELD); }
}

}  // namespace

void harness_prewarm();   // endpoint.cc: initialise the harness's own lazily-initialised statics on the controller thread

static Plan c20_gen(uint64_t seed, int tier, uint64_t index) {
    (void) tier; (void) index;
    Rng r(seed);
    Plan p;
    int nt = 2 + (int) r.below(3);
    p.cfg["threads"] = nt;
    p.cfg["sid_kind"] = r.chance(3, 4) ? KK_EC256 : KK_RSA2048;
    p.cfg["ckshare"] = r.chance(1, 2) ? 1 : 0;
    static const int DEN[] = { 1, 2, 4, 8, 16, 64, 256 };
    p.cfg["sden"] = DEN[r.below(7)];
    static const int MASKS[] = { 0x1f, 0x1f, 0x11, 0x13, 0x1d, 0x19 };    // all; mutex+yield only; +alloc; ...
    p.cfg["kmask"] = MASKS[r.below(6)];
    if (r.chance(1, 4)) { p.cfg["pct"] = 1 + (int64_t) r.below(3); p.cfg["pspan"] = 200 + (int64_t) r.below(6000); }
    if (r.chance(1, 2)) { p.cfg["tcb"] = 1; }
    bool crl = r.chance(1, 3);
    if (crl) { p.cfg["crl"] = r.chance(1, 2) ? 2 : 1; p.cfg["sid_kind"] = KK_RSA2048; }   // psX509AuthenticateCRL of this tree rejects every ECDSA-signed CRL (observation, DESIGN 16.8): RSA identities only      // the server application registers a session-ticket key callback
    int rotates = 0;
    bool overlap = !crl && r.chance(1, 3);      // threads keep connections open across later operations and have fatal alerts hit sessions
    for (int t = 0; t < nt; t++) {
        int nops = 2 + (int) r.below(overlap ? 5 : 3);
        int ver = (int) r.below(20); ver = ver < 10 ? 0 : ver < 17 ? 1 : 2;
        int tick = (int) r.below(2);
        int64_t suite_bit = (int64_t) r.below(2) * 2;     // fixed between a full handshake and its resumptions (a resumption must offer the original suite)
        for (int i = 0; i < nops; i++) {
            int64_t c = (int64_t) r.below(2) | suite_bit;
            if (i == 0) { p.ops.push_back(Op("full", t, ver, c, tick)); continue; }
            unsigned k = (unsigned) r.below(20);
            if (overlap && k < 9) { static const char *OV[] = { "hold", "hold", "fatalres", "release" }; p.ops.push_back(Op(OV[r.below(4)], t, ver, c, tick)); }
            else if (k < 12) { p.ops.push_back(Op("resume", t, ver, c, tick | (r.chance(1, 8) ? 4 : 0))); }
            else if (k < 16 || rotates >= 2) { if (r.chance(1, 2)) { ver = (int) r.below(3); tick = (int) r.below(2); suite_bit = (int64_t) r.below(2) * 2; c = (c & 1) | suite_bit; } p.ops.push_back(Op("full", t, ver, c, tick)); }
            else { rotates++; p.ops.push_back(Op("rotate", t, 0, (int64_t) r.below(3))); }
        }
    }
    if (crl) {
        // one revoking insertion and at most one remover (clean CRL of the same issuer, or clear), at seeded positions of seeded threads
        auto insert_at = [&](const Op &o) { size_t pos = (size_t) r.below(p.ops.size() + 1); p.ops.insert(p.ops.begin() + (long) pos, o); };
        insert_at(Op("crl_add", (int64_t) r.below((uint64_t) nt), 1));
        if (r.chance(2, 3)) { insert_at(r.chance(1, 2) ? Op("crl_clear", (int64_t) r.below((uint64_t) nt)) : Op("crl_add", (int64_t) r.below((uint64_t) nt), 0)); }
        if (p.get("crl") == 2) { int extra = (int) r.below(3); for (int i = 0; i < extra; i++) { insert_at(Op("crl_add", (int64_t) r.below((uint64_t) nt), 1)); } }   // refreshes of the revoking CRL (same content, new object: the old one is freed)
    }
    return p;
}

// aimed plans: two threads on one server key set, one asking for P-256 and the other for P-384 (cache hit vs regenerate), every version pair
static std::vector<Plan> c20_fixed(int tier) {
    std::vector<Plan> v;
    static const int DEN[] = { 1, 2, 8 };
    for (int va = 0; va < 3; va++) {
        for (int vb = 0; vb < 3; vb++) {
            for (int d = 0; d < (tier ? 3 : 2); d++) {
                for (int share = 0; share < 2; share++) {
                    Plan p; p.seed = 200000 + (uint64_t) (va * 1000 + vb * 100 + d * 10 + share);
                    p.cfg["threads"] = 2; p.cfg["sid_kind"] = KK_EC256; p.cfg["ckshare"] = share; p.cfg["sden"] = DEN[d]; p.cfg["kmask"] = 0x1f; if ((va + vb + d) & 1) { p.cfg["tcb"] = 1; }
                    p.ops.push_back(Op("full", 0, va, 0, 1)); p.ops.push_back(Op("resume", 0, va, 0, 1)); p.ops.push_back(Op("full", 0, va, 0, 0));
                    p.ops.push_back(Op("full", 1, vb, 1, 1)); p.ops.push_back(Op("resume", 1, vb, 1, 1)); p.ops.push_back(Op("rotate", 1, 0, 0));
                    v.push_back(p);
                }
            }
        }
    }
    // several holders of one session-cache entry in one thread (original open, a resumption hit by a fatal alert, later release) while another
    // thread registers and resumes sessions of its own: the cache entry bookkeeping (reference counts, free list) across threads
    static const int DEN2[] = { 1, 2, 4, 8, 16 };
    for (int ver : { 0, 2 }) {
        for (int d = 0; d < 5; d++) {
            for (int var = 0; var < (tier ? 6 : 3); var++) {
                Plan p; p.seed = 201000 + (uint64_t) (ver * 100 + d * 10 + var);
                p.cfg["threads"] = 2 + (var == 2); p.cfg["sid_kind"] = var & 1 ? KK_RSA2048 : KK_EC256; p.cfg["ckshare"] = var & 1; p.cfg["sden"] = DEN2[d]; p.cfg["kmask"] = d & 1 ? 0x11 : 0x1f;
                p.ops.push_back(Op("full", 0, ver, 0, 0)); p.ops.push_back(Op("hold", 0, ver, 0, 0)); p.ops.push_back(Op("fatalres", 0, ver, 0, 0)); if (var >= 3) { p.ops.push_back(Op("resume", 0, ver, 0, 0)); } p.ops.push_back(Op("release", 0));
                p.ops.push_back(Op("full", 0, ver, 0, 0)); p.ops.push_back(Op("resume", 0, ver, 0, 0));
                for (int t = 1; t < 2 + (var == 2); t++) {
                    p.ops.push_back(Op("full", t, ver, 0, 0)); p.ops.push_back(Op("resume", t, ver, 0, 0)); p.ops.push_back(Op("full", t, ver, 1, 0)); p.ops.push_back(Op("resume", t, ver, 1, 0));
                    p.ops.push_back(Op("full", t, ver, 0, 0)); p.ops.push_back(Op("resume", t, ver, 0, 0)); p.ops.push_back(Op("resume", t, ver, 0, 0));
                }
                v.push_back(p);
            }
        }
    }
    // a resumption the server has to refuse (extended_master_secret usage differs from the cached session) while other threads use the cache
    for (int ver : { 0, 2 }) {
        for (int d = 0; d < 3; d++) {
            Plan p; p.seed = 202000 + (uint64_t) (ver * 10 + d);
            p.cfg["threads"] = 3; p.cfg["sid_kind"] = d & 1 ? KK_RSA2048 : KK_EC256; p.cfg["ckshare"] = 0; p.cfg["sden"] = DEN2[d]; p.cfg["kmask"] = 0x1f;
            p.ops.push_back(Op("full", 0, ver, 0, 0)); p.ops.push_back(Op("resume", 0, ver, 0, 4)); p.ops.push_back(Op("resume", 0, ver, 0, 0));
            for (int t = 1; t < 3; t++) { p.ops.push_back(Op("full", t, ver, 0, 0)); p.ops.push_back(Op("resume", t, ver, 0, 0)); p.ops.push_back(Op("full", t, ver, 1, 0)); p.ops.push_back(Op("resume", t, ver, 1, 0)); }
            v.push_back(p);
        }
    }
    return v;
}

static RunResult c20_exec(const Plan &p) {
    RunResult res;
    vsim_run_reset(p.seed);
    ossl_seed(p.seed);          // OpenSSL only signs the CRLs of this run; its randomness is part of the run's seed
    sim_global_open();
    harness_prewarm();
    int nt = (int) p.get("threads", 2); if (nt < 1) { nt = 1; } if (nt > VS_MAX_THREADS) { nt = VS_MAX_THREADS; }
    Shared sh; sh.server_kind = (int) p.get("sid_kind", KK_EC256);
    {
        KeySpec s; s.identity = sh.server_kind; s.ticket_keys = true; s.ticket_key_id = 1;
        vsim_set_node(NODE_SERVER);
        sh.skeys = load_keys(s);
        if (sh.skeys) {
            // two more ticket keys from the start, so that retiring the minting key leaves the server able to mint
            for (int id = 2; id <= 3; id++) { unsigned char n[16], sy[32], m[32]; ticket_key_material(id, n, sy, m); matrixSslLoadSessionTicketKeys(sh.skeys, n, sy, 32, m, 32); }
            if (p.get("tcb")) { matrixSslSetSessionTicketCallback(sh.skeys, ticket_cb); }
        }
    }
    std::vector<ThreadCtx> T((size_t) nt);
    bool setup_ok = sh.skeys != nullptr;
    std::string crl_err;
    if (p.get("crl") && setup_ok) {
        sh.crl_mode = true; sh.crl_owned = p.get("crl") == 2;
        struct vsim_keymat km; vsim_keymat(sh.server_kind, &km);
        vsim_set_node(NODE_HARNESS);
        if (psX509ParseCert(nullptr, km.ca, (uint32) km.caLen, &sh.ca, 0) < 0) { setup_ok = false; crl_err = "CA parse"; }
        for (int i = 0; i < 2 && setup_ok; i++) {
            Bytes der;
            if (!ossl_make_crl(sh.server_kind, i == 1, der, &crl_err)) { setup_ok = false; break; }
            sh.crl_der[i] = der;
            if (psX509ParseCRL(nullptr, &sh.crl[i], der.data(), (int32) der.size()) < 0) { setup_ok = false; crl_err = "psX509ParseCRL"; break; }
            int arc = psX509AuthenticateCRL(sh.ca, sh.crl[i], nullptr);
            if (getenv("VSIM_DUMP_CRL")) { FILE *f = fopen((std::string(getenv("VSIM_DUMP_CRL")) + (arc < 0 ? ".bad" : ".good") + std::to_string(i)).c_str(), "wb"); if (f) { fwrite(der.data(), 1, der.size(), f); fclose(f); } }
            if (arc < 0) { setup_ok = false; crl_err = "psX509AuthenticateCRL rc=" + std::to_string(arc) + " kind=" + std::to_string(sh.server_kind); break; }
        }
    }
    bool share = p.get("ckshare") != 0;
    KeySpec ck; ck.ca_mask = 1u << sh.server_kind;
    vsim_set_node(NODE_CLIENT);
    if (share) { sh.ckeys_shared = load_keys(ck); setup_ok = setup_ok && sh.ckeys_shared; }
    for (int t = 0; t < nt && setup_ok; t++) {
        T[(size_t) t].idx = t + 1; T[(size_t) t].sh = &sh;
        T[(size_t) t].ckeys = share ? sh.ckeys_shared : load_keys(ck);
        vsim_set_node(NODE_HARNESS);
        if (!T[(size_t) t].ckeys || matrixSslNewSessionId(&T[(size_t) t].sid, nullptr) < 0) { setup_ok = false; }
    }
    for (auto &op : p.ops) { if (setup_ok) { T[(size_t) ((uint64_t) op.a % (uint64_t) nt)].ops.push_back(op); } }
    vs_stats_t st; memset(&st, 0, sizeof st);
    if (!setup_ok) { res.harness_error = true; res.detail = "key setup failed " + crl_err; }
    else {
        vs_cfg_t cfg; cfg.seed = derive(p.seed, "sched", 0); cfg.switch_den = (unsigned) p.get("sden", 8); cfg.kind_mask = (unsigned) p.get("kmask", 0x1f);
        cfg.pct_depth = (int) p.get("pct", 0); cfg.pct_span = (unsigned) p.get("pspan", 2000);
        std::vector<void *> args; for (auto &t : T) { args.push_back(&t); }
        if (vs_run(nt, thread_main, args.data(), &cfg, &st) != 0) { res.harness_error = true; res.detail = "vs_run failed"; }
    }
    // ---------------- oracle over the recorded history
    if (!res.harness_error) {
        std::vector<Outcome> all; for (auto &t : T) { for (auto &o : t.out) { all.push_back(o); } }
        int conns = 0, overlaps = 0;
        for (auto &o : all) { if (o.kind == "full" || o.kind == "resume" || o.kind == "hold" || o.kind == "fatalres") { conns++; } }
        for (size_t i = 0; i < all.size(); i++) { for (size_t j = i + 1; j < all.size(); j++) { if (all[i].thread != all[j].thread && all[i].inv < all[j].ret && all[j].inv < all[i].ret) { overlaps++; } } }
        static const char *VN[] = { "tls1.2", "tls1.3", "tls1.1" };
        for (auto &o : all) {
            if (res.violation) { break; }
            if (o.kind != "full" && o.kind != "resume" && o.kind != "hold" && o.kind != "fatalres") { continue; }
            bool is_res = o.kind != "full";
            std::string ctx = std::string(VN[o.ver]) + "," + o.kind + "," + o.mech;
            // CRL cache: is the revoking CRL in the table in some / every sequential order consistent with the history?
            bool revoke_possible = false, revoke_certain = false;
            if (sh.crl_mode) {
                // several insertions of the revoking CRL (refreshes) and at most one remover (clean CRL of the same issuer, or clear)
                const Outcome *rem = nullptr; std::vector<const Outcome *> adds;
                for (auto &x : all) { if (x.kind == "crl_add_revoking" && x.rc >= 0) { adds.push_back(&x); } else if (x.kind == "crl_clear" || (x.kind == "crl_add_clean" && x.rc >= 0)) { rem = &x; } }
                for (auto *add : adds) {
                    bool removed_before = rem && rem->inv > add->ret && rem->ret < o.inv;          // remover entirely between this insertion and this connection
                    bool remover_harmless = !rem || rem->ret < add->inv || rem->inv > o.ret;       // remover entirely before this insertion, or after this connection
                    if (add->inv < o.ret && !removed_before) { revoke_possible = true; }
                    if (add->ret < o.inv && remover_harmless) { revoke_certain = true; }
                }
            }
            if (o.ok && !o.resumed_s && revoke_certain) {
                res.violate("revoked_certificate_accepted", ctx, "T" + std::to_string(o.thread) + " op " + std::to_string(o.opi) + ": a full handshake completed although the CRL revoking the server certificate had been inserted (and not removed) before it started");
                break;
            }
            if (!o.ok && revoke_possible) { res.count("conn.refused_revoked_certificate"); continue; }
            if (!o.ok && o.ems_flip) { res.count("conn.refused_ems_mismatch"); continue; }     // RFC 7627 5.3: the server aborts, or falls back to a full handshake; both are sequentially possible
            if (!o.ok) {
                res.violate("session_failed_under_concurrency", ctx, "T" + std::to_string(o.thread) + " op " + std::to_string(o.opi) + " (" + ctx + "): the handshake did not complete (client err " + std::to_string(o.err_c) + ", server err " +
                            std::to_string(o.err_s) + ") although it completes in every sequential order of the same operations");
                break;
            }
            if (!o.data_ok) { res.violate("data_mismatch_under_concurrency", ctx, "T" + std::to_string(o.thread) + " op " + std::to_string(o.opi) + ": delivered application data differs from what this session's peer sent"); break; }
            if (o.resumed_s != o.resumed_c) { res.violate("endpoints_disagree_on_resumption", ctx, "T" + std::to_string(o.thread) + " op " + std::to_string(o.opi) + ": server resumed=" + std::to_string(o.resumed_s) + " client resumed=" + std::to_string(o.resumed_c)); break; }
            // which outcomes does some sequential order allow?
            bool may_resume = false, may_full = true;
            if (o.ems_flip) { is_res = false; }     // falls to the defaults: full handshake only
            if (is_res && o.mech == "id") { may_resume = !o.after_fatal; may_full = conns > 30 || o.after_fatal; }        // the cache (32 entries) cannot have evicted it
            else if (is_res && (o.mech == "ticket" || o.mech == "psk13")) {
                // the key that minted the ticket: still loaded in every order / retired in every order / concurrent with the retirement
                bool del_before = false, del_concurrent = false;
                for (auto &d : all) {
                    if (d.kind != "key_del" || d.rc < 0 || d.key_id != o.ticket_key) { continue; }
                    if (d.ret < o.inv) { del_before = true; } else if (d.inv < o.ret) { del_concurrent = true; }
                }
                if (del_before) { may_resume = false; may_full = true; }
                else if (del_concurrent) { may_resume = true; may_full = true; }
                else { may_resume = true; may_full = false; }
                if (o.ticket_key < 0) { may_resume = true; may_full = true; }
            }
            if (o.after_failure) { may_resume = true; may_full = true; }
            if (o.resumed_s && !may_resume) {
                res.violate("resumption_not_serializable", ctx + ",resumed", "T" + std::to_string(o.thread) + " op " + std::to_string(o.opi) + " resumed via " + o.mech + " (ticket key " + std::to_string(o.ticket_key) +
                            ") although in every sequential order consistent with the history that state was no longer valid");
            } else if (!o.resumed_s && !may_full) {
                res.violate("resumption_not_serializable", ctx + ",not_resumed", "T" + std::to_string(o.thread) + " op " + std::to_string(o.opi) + " did a full handshake although it presented valid " + o.mech +
                            " state (ticket key " + std::to_string(o.ticket_key) + ") that resumes in every sequential order consistent with the history");
            }
            res.count(std::string("conn.") + o.kind + "." + o.mech + (o.resumed_s ? ".resumed" : ".full"));
        }
        uint64_t f = st.schedule_hash;
        for (auto &t : T) { f = mix64(f, t.fp); }
        res.fingerprint = f;
        res.nontrivial = st.switches > 2 && overlaps > 0;
        res.count("sched.switches", (int64_t) st.switches); res.count("sched.points", (int64_t) st.points);
        res.count("sched.contended_lock_acquisitions", (int64_t) st.contended_locks);
        res.count("sched.points.mutex", (int64_t) st.kind_count[VS_K_MUTEX]); res.count("sched.points.alloc", (int64_t) st.kind_count[VS_K_ALLOC]);
        res.count("sched.points.clock", (int64_t) st.kind_count[VS_K_CLOCK]); res.count("sched.points.entropy", (int64_t) st.kind_count[VS_K_ENTROPY]);
        res.count("history.overlapping_op_pairs", overlaps);
        res.count(std::string("mode.") + (p.get("pct") ? "pct" : "random"));
        res.count(std::string("threads.") + std::to_string(nt));
        if (st.max_blocked) { res.count("sched.runs_with_blocked_thread"); }
        for (auto &o : all) { if (o.kind == "key_del") { res.count(o.rc >= 0 ? "ticket_key_deleted" : "ticket_key_delete_refused"); } }
        res.states.push_back("threads" + std::to_string(nt) + ",den" + std::to_string(p.get("sden")) + ",mask" + std::to_string(p.get("kmask")) + (p.get("pct") ? ",pct" : ""));
    }
    vsim_set_node(NODE_HARNESS);
    for (auto &t : T) { if (t.sid) { matrixSslDeleteSessionId(t.sid); } if (t.ckeys && !share) { matrixSslDeleteKeys(t.ckeys); } }
    if (sh.ckeys_shared) { matrixSslDeleteKeys(sh.ckeys_shared); }
    if (sh.skeys) { matrixSslDeleteKeys(sh.skeys); }
    if (sh.crl_mode) { if (sh.crl_owned) { psCRL_DeleteAll(); } else { psCRL_RemoveAll(); } for (int i = 0; i < 2; i++) { if (sh.crl[i]) { psX509FreeCRL(sh.crl[i]); } } if (sh.ca) { psX509FreeCert(sh.ca); } }
    sim_global_close();
    return res;
}

static ModuleRegistrar reg({ "C20", "threads", "exploration",
    "seeded plans: 2-4 real threads x 2-4 operations each (full / id-resumed / ticket-resumed / TLS 1.3 PSK-resumed handshake + data + close over TLS 1.1/1.2/1.3, alternating ECDHE curves; ticket-key rotation; CRL cache insert / replace / clear with strictly validating clients) "
    "against one shared server key set, a shared or per-thread client key set, the global session cache and PRNG; schedule = seeded choice of the next thread at every seam call "
    "(mutex lock/unlock, allocation, clock, entropy; per-run subset and switch probability 1..1/256, or PCT-style priorities with 1-3 seeded priority drops); fixed aimed plans: two threads on different curves, "
    "all version pairs. Oracles: ThreadSanitizer (tsan build) / AddressSanitizer (asan build) clean, no deadlock (wait-for check at every block), every session completes with exact data, resumption decisions allowed by "
    "some sequential order consistent with the invoke/return history. non-trivial = threads' operations overlapped and >2 context switches; distinct = distinct (schedule hash, outcomes)",
    c20_gen, c20_exec, 900, 60000, 40, 1500,
    { "core (osdep mutexes run for real, uncontended by construction)", "crypto (PRNG, ECC, X.509 validation)", "matrixssl (sessions, session cache, ticket keys, ECDHE cache)" },
    { "thread scheduler (token passing, hidden from TSan)", "transport", "applications", "clock", "entropy", "allocator front-end" },
    { "preemption happens only at seam calls; a race is still reported by TSan's happens-before analysis when both accesses execute in the run",
      "one revoking CRL insertion and at most one remover per run (keeps the allowed-outcome computation exact)" },
    "tsan", c20_fixed, false });
