// C18 - TLS behaviour is a function of the bytes received and the data sent, not of how the inbound stream is
// chunked or the outbound buffer drained.  Metamorphic, replay-isolated: a reference run records, per endpoint,
// the exact inbound stream and the application's actions (keyed to inbound positions); each endpoint is then
// re-created under the same per-node entropy stream and clock and fed the same stream under another partition
// and another drain pattern, with no live peer, so nothing but the partition differs.
#include "driver.h"
#include "world.h"

struct ConnLog {
    EpCfg cfg[2];                         // 0 client, 1 server
    Bytes in[2], out[2];
    std::vector<MxEndpoint::AppAction> actions[2];
    std::vector<size_t> barriers[2];
    // normalised outcome
    bool complete[2]; bool dead[2]; int first_error[2];
    Bytes delivered[2]; std::vector<int> alerts[2]; bool complete_before_delivery[2];
};

static Bytes concat(const std::vector<Bytes> &v) { Bytes o; for (auto &x : v) { o.insert(o.end(), x.begin(), x.end()); } return o; }

static void snapshot(MxEndpoint &e, ConnLog &c, int role) {
    c.in[role] = e.in_log; c.out[role] = e.out_log; c.actions[role] = e.actions; c.barriers[role] = e.barriers;
    c.complete[role] = e.is_complete(); c.dead[role] = e.is_dead(); c.first_error[role] = e.first_error_alive;
    c.delivered[role] = concat(e.delivered);
    c.alerts[role].clear(); for (auto &a : e.alerts_in) { c.alerts[role].push_back(a.level * 256 + a.desc); }
    bool ok = true; for (auto f : e.delivered_complete) { if (!f) { ok = false; } }
    c.complete_before_delivery[role] = ok;
}

static const int LENS[] = { 1, 15, 16, 17, 100, 1000, 4096, 16384, 16385, 20000 };
enum { PART_ALL = 0, PART_BYTE, PART_RECORD, PART_STRADDLE, PART_HDR_SPLIT, PART_RANDOM, PART_N };
enum { DRAIN_ALL = 0, DRAIN_BYTE, DRAIN_RANDOM, DRAIN_N };

static Plan c18_gen(uint64_t seed, int tier, uint64_t index) {
    (void) tier; (void) index;
    Rng r(seed);
    Plan p;
    int ver = (int) r.below(3);
    p.cfg["ver"] = ver;
    if (ver == 2) {
        p.cfg["suite"] = all_tls13_suites()[r.below(3)];
        static const int ids[] = { KK_RSA2048, KK_EC256, KK_EC384, KK_ED25519 };
        p.cfg["sid_kind"] = ids[r.below(4)];
        if (r.chance(1, 3)) { p.cfg["tickets"] = 1; }      // NewSessionTicket after Finished, PSK resumption on the 2nd connection
    } else {
        static const uint16_t S11[] = { TLS_RSA_WITH_AES_128_CBC_SHA, TLS_ECDHE_RSA_WITH_AES_128_CBC_SHA, TLS_ECDHE_ECDSA_WITH_AES_256_CBC_SHA, TLS_PSK_WITH_AES_128_CBC_SHA, TLS_ECDH_ECDSA_WITH_AES_128_CBC_SHA };
        static const uint16_t S12[] = { TLS_RSA_WITH_AES_128_GCM_SHA256, TLS_ECDHE_RSA_WITH_AES_256_GCM_SHA384, TLS_ECDHE_ECDSA_WITH_AES_128_CBC_SHA256, TLS_RSA_WITH_AES_256_CBC_SHA256, TLS_ECDHE_ECDSA_WITH_AES_128_GCM_SHA256 };
        p.cfg["suite"] = (ver == 1 && r.chance(2, 3)) ? S12[r.below(5)] : S11[r.below(5)];
        if (r.chance(1, 3)) { p.cfg["tickets"] = 1; }
    }
    bool psk = suite_auth_kind((uint16_t) p.get("suite")) == KK_PSK_ONLY;
    if (!psk && r.chance(1, 4)) { p.cfg["cauth"] = r.chance(1, 2) ? KK_RSA2048 : KK_EC256; }
    p.cfg["conns"] = r.chance(1, 3) ? 2 : 1;                 // 2: second connection resumes
    // failing handshakes / corrupted traffic: the inbound stream itself carries the defect
    int fail = (int) r.below(8);
    if (fail == 0 && !psk) { p.cfg["trust"] = 0; p.cfg["cb_c"] = CB_STRICT; }                  // unknown CA -> client alerts
    if (fail == 1) { p.cfg["flip_dir"] = (int64_t) r.below(2); p.cfg["flip_rec"] = (int64_t) (1 + r.below(6)); p.cfg["flip_bit"] = (int64_t) r.below(4000); }
    if (fail == 2) { p.cfg["flip_dir"] = (int64_t) r.below(2); p.cfg["flip_rec"] = (int64_t) (6 + r.below(8)); p.cfg["flip_bit"] = (int64_t) r.below(4000); }
    int n = (int) r.below(5);
    for (int i = 0; i < n; i++) { p.ops.push_back(Op("send", (int64_t) r.below(2), LENS[r.below(sizeof LENS / sizeof LENS[0])], (int64_t) r.below(2))); if (r.chance(1, 2)) { p.ops.push_back(Op("pump")); } }
    if (r.chance(1, 2)) { p.ops.push_back(Op("close", (int64_t) r.below(2))); }
    if (r.chance(1, 3)) { p.cfg["eager"] = 1; }
    if (r.chance(1, 4)) { p.cfg["eager_srv"] = 1; }
    if (ver != 2 && r.chance(1, 4)) { static const int MF[] = { 512, 1024, 2048, 4096 }; p.cfg["maxfrag"] = MF[r.below(4)]; }     // max_fragment_length negotiated: full-size fragments in the application writes below
    p.cfg["part_c"] = (int64_t) (1 + r.below(PART_N - 1)); p.cfg["part_s"] = (int64_t) (1 + r.below(PART_N - 1));
    p.cfg["drain_c"] = (int64_t) r.below(DRAIN_N); p.cfg["drain_s"] = (int64_t) r.below(DRAIN_N);
    return p;
}

// aimed plans: "server speaks first" on a first connection whose session the second connection tries to resume, every partition of the client's inbound stream
static std::vector<Plan> c18_fixed(int tier) {
    std::vector<Plan> v;
    for (int ver = 0; ver < 3; ver++) { for (int tk = 0; tk < 2; tk++) { for (int part = 1; part < PART_N; part++) { for (int es = 0; es < 2; es++) {
        Plan p; p.seed = 180000 + (uint64_t) (((ver * 2 + tk) * PART_N + part) * 2 + es);
        p.cfg["ver"] = ver; p.cfg["tickets"] = tk; p.cfg["conns"] = 2; p.cfg["eager_srv"] = 1; p.cfg["eager"] = es;
        if (ver == 2) { p.cfg["suite"] = TLS_AES_128_GCM_SHA256; p.cfg["sid_kind"] = KK_EC256; }
        else { p.cfg["suite"] = ver == 1 ? TLS_ECDHE_RSA_WITH_AES_256_GCM_SHA384 : TLS_RSA_WITH_AES_128_CBC_SHA; }
        p.cfg["part_c"] = part; p.cfg["part_s"] = 1 + (part % (PART_N - 1)); p.cfg["drain_c"] = part % DRAIN_N; p.cfg["drain_s"] = (part + 1) % DRAIN_N;
        p.ops.push_back(Op("send", 0, 100, 0)); p.ops.push_back(Op("send", 1, 1000, 1)); p.ops.push_back(Op("pump")); p.ops.push_back(Op("close", 0));
        v.push_back(p);
    } } } }
    // max_fragment_length negotiated (512 / 1024), CBC and GCM suites, application writes of exactly and more than one fragment, every partition
    for (int ver = 0; ver < 2; ver++) { for (int mf = 0; mf < 2; mf++) { for (int su = 0; su < 2; su++) { for (int part = 1; part < PART_N; part++) {
        if (ver == 0 && su == 1) { continue; }
        Plan p; p.seed = 181000 + (uint64_t) (((ver * 2 + mf) * 2 + su) * PART_N + part);
        p.cfg["ver"] = ver; p.cfg["maxfrag"] = mf ? 1024 : 512; p.cfg["conns"] = 1;
        p.cfg["suite"] = su ? TLS_ECDHE_RSA_WITH_AES_256_GCM_SHA384 : (ver ? TLS_RSA_WITH_AES_256_CBC_SHA256 : TLS_RSA_WITH_AES_128_CBC_SHA);
        p.cfg["part_c"] = part; p.cfg["part_s"] = 1 + (part % (PART_N - 1)); p.cfg["drain_c"] = part % DRAIN_N; p.cfg["drain_s"] = (part + 1) % DRAIN_N;
        p.ops.push_back(Op("send", 0, mf ? 1024 : 512, 0)); p.ops.push_back(Op("send", 1, 4096, 1)); p.ops.push_back(Op("pump")); p.ops.push_back(Op("send", 0, 16385, 1)); p.ops.push_back(Op("pump")); p.ops.push_back(Op("close", 0));
        v.push_back(p);
    } } } }
    // a forged plaintext fatal alert glued behind each early handshake record of either direction (one segment), every partition of the receiver's stream
    for (int ver = 0; ver < 3; ver++) { for (int su = 0; su < 2; su++) { for (int dir = 0; dir < 2; dir++) { for (int rec = 0; rec < (dir ? 5 : 2); rec++) { for (int part = 1; part < PART_N; part += (tier ? 1 : 2)) {
        Plan p; p.seed = 182000 + (uint64_t) ((((ver * 2 + su) * 2 + dir) * 5 + rec) * PART_N + part);
        p.cfg["ver"] = ver; p.cfg["conns"] = 1; p.cfg["trail_dir"] = dir; p.cfg["trail_rec"] = rec;
        if (ver == 2) { p.cfg["suite"] = su ? TLS_CHACHA20_POLY1305_SHA256 : TLS_AES_128_GCM_SHA256; p.cfg["sid_kind"] = KK_EC256; }
        else { p.cfg["suite"] = su ? TLS_ECDHE_RSA_WITH_AES_128_CBC_SHA : TLS_RSA_WITH_AES_128_CBC_SHA; }
        p.cfg["part_c"] = part; p.cfg["part_s"] = part; p.cfg["drain_c"] = part % DRAIN_N; p.cfg["drain_s"] = (part + 1) % DRAIN_N;
        p.ops.push_back(Op("send", 0, 100, 0)); p.ops.push_back(Op("pump"));
        v.push_back(p);
    } } } } }
    return v;
}

// record boundaries of a TLS byte stream (best effort: stops at the first incomplete header)
static std::vector<size_t> record_ends(const Bytes &s) {
    std::vector<size_t> v; size_t off = 0;
    while (off + 5 <= s.size()) { size_t len = (size_t) s[off + 3] << 8 | s[off + 4]; off += 5 + len; if (off > s.size()) { break; } v.push_back(off); }
    return v;
}

static size_t next_chunk(int mode, Rng &r, const Bytes &in, size_t pos, const std::vector<size_t> &ends) {
    size_t left = in.size() - pos;
    size_t rec_end = in.size();
    for (size_t e : ends) { if (e > pos) { rec_end = e; break; } }
    size_t rec_start = 0; for (size_t e : ends) { if (e <= pos) { rec_start = e; } }
    switch (mode) {
    case PART_ALL: return left;
    case PART_BYTE: return 1;
    case PART_RECORD: return rec_end - pos;
    case PART_STRADDLE: { size_t n = rec_end - pos + 1 + r.below(7); return n < left ? n : left; }     // ends a few bytes into the next record
    case PART_HDR_SPLIT: if (pos == rec_start) { return 1; } if (pos == rec_start + 1) { return 4 < left ? 4 : left; } return rec_end - pos;
    default: { size_t n = 1 + (size_t) r.below(r.chance(1, 3) ? 8 : 600); return n < left ? n : left; }
    }
}

static void drain(MxEndpoint &e, int mode, Rng &r, bool final) {
    for (int guard = 0; guard < 200000; guard++) {
        size_t avail = e.pending_out();
        if (!avail) { break; }
        size_t n = avail;
        if (!final) {
            if (mode == DRAIN_BYTE) { n = 1; }
            else if (mode == DRAIN_RANDOM) { n = 1 + (size_t) r.below(avail); if (r.chance(1, 3)) { e.pull(n); return; } }   // sometimes leave the rest for later
        }
        e.pull(n);
        if (!final && mode == DRAIN_BYTE && r.chance(1, 50)) { return; }
    }
}

struct Replayed { bool complete, dead; int first_error; Bytes delivered, out; std::vector<int> alerts; bool complete_before_delivery; long complete_pending = -1; };

static Replayed replay_endpoint(const ConnLog &c, int role, const sslKeys_t *keys, sslSessionId_t *sid, int part, int drainm, uint64_t seed) {
    Rng r(derive(seed, role ? "replay-s" : "replay-c"));
    MxEndpoint e; e.keep_log = true;
    EpCfg cfg = c.cfg[role]; cfg.sid = role == 0 ? sid : nullptr;
    e.create(cfg, keys);
    const Bytes &in = c.in[role];
    std::vector<size_t> ends = record_ends(in);
    size_t pos = 0, ai = 0;
    const auto &A = c.actions[role];
    for (int guard = 0; guard < 400000; guard++) {
        while (ai < A.size() && A[ai].pos <= pos) {
            drain(e, drainm, r, true);   // as in the reference run: pending output is flushed before an application action
            if (A[ai].kind == 0) { e.app_send(A[ai].payload.data(), A[ai].payload.size(), A[ai].writebuf); } else { e.app_close(); }
            ai++;
            drain(e, drainm, r, false);
        }
        if (pos >= in.size()) { break; }
        size_t bound = ai < A.size() ? A[ai].pos : in.size();
        // never deliver bytes the peer can only have produced after seeing output we have not produced yet
        for (size_t b : c.barriers[role]) { if (b > pos && b < bound) { bound = b; break; } }
        size_t n = next_chunk(part, r, in, pos, ends);
        if (n > bound - pos) { n = bound - pos; }
        if (n == 0) { n = 1; }
        if (e.alive()) { e.feed(in.data() + pos, n); }
        pos += n;
        drain(e, drainm, r, false);
    }
    drain(e, drainm, r, true);
    Replayed o;
    o.complete = e.is_complete(); o.dead = e.is_dead(); o.first_error = e.first_error_alive;
    o.delivered = concat(e.delivered); o.out = e.out_log;
    for (auto &a : e.alerts_in) { o.alerts.push_back(a.level * 256 + a.desc); }
    o.complete_before_delivery = true; for (auto f : e.delivered_complete) { if (!f) { o.complete_before_delivery = false; } }
    o.complete_pending = e.complete_pending;
    e.destroy();
    return o;
}

static const char *part_name(int m) { static const char *N[] = { "all", "byte", "record", "straddle", "hdr_split", "random" }; return N[m % PART_N]; }

static RunResult c18_exec(const Plan &p) {
    RunResult res;
    PairCfg pc = paircfg_from_plan(p);
    int conns = (int) p.get("conns", 1);
    std::vector<ConnLog> hist;
    Fingerprint fp;
    // ---------------- phase 1: reference run, live peers, deliver-everything chunking
    vsim_run_reset(p.seed);
    sim_global_open();
    {
        TlsWorld w; w.keep_logs = true;
        if (!w.setup(pc)) { res.harness_error = true; res.detail = "setup rc=" + std::to_string(w.setup_rc); sim_global_close(); return res; }
        int flip_dir = (int) p.get("flip_dir", -1), flip_rec = (int) p.get("flip_rec", -1); int64_t flip_bit = p.get("flip_bit");
        int trail_dir = (int) p.get("trail_dir", -1), trail_rec = (int) p.get("trail_rec", -1);
        for (int ci = 0; ci < conns; ci++) {
            bool last = ci == conns - 1;
            w.filter = [&](Record &r, std::vector<Bytes> &out) {
                Bytes b = r.raw;
                if (last && r.dir == trail_dir && r.index == trail_rec) {
                    // an on-path attacker appends a plaintext fatal alert record right behind this record (same segment): before the ChangeCipherSpec
                    // of that direction a plaintext alert is what the receiver expects to read
                    Bytes al = { 21, b.size() > 2 ? b[1] : (unsigned char) 3, b.size() > 2 ? b[2] : (unsigned char) 3, 0, 2, 2, 40 };
                    b.insert(b.end(), al.begin(), al.end()); res.count("fault.trailing_alert_in_stream");
                }
                if (last && r.dir == flip_dir && r.index == flip_rec && b.size() > 5) { size_t bit = (size_t) ((uint64_t) flip_bit % ((b.size() - 5) * 8)); b[5 + bit / 8] ^= (unsigned char) (1u << (bit % 8)); res.count("fault.flip_in_stream"); }
                out.push_back(b);
            };
            if (!w.connect()) { res.harness_error = true; res.detail = "connect failed"; break; }
            ConnLog c; c.cfg[0] = w.cli->cfg; c.cfg[1] = w.srv->cfg;
            bool eager = last && p.get("eager") != 0;
            bool eager_srv = p.get("eager_srv") != 0;      // "server speaks first": the server application writes the moment its side completes, on every connection
            size_t eager_ops = 0; bool srv_spoke = false;
            if (eager || eager_srv) {
                // the client application writes the moment its side reports completion - before its last flight has left the output
                // buffer - so the data is coalesced with (TLS 1.3 / resumed) Finished and reaches the server without a causality barrier in between
                for (int step = 0; step < 400; step++) {
                    bool moved = w.pump_once();
                    if (eager_srv && w.srv->is_complete() && !srv_spoke) {
                        Bytes pl = tagged_payload(1, 200 + ci, 41); w.srv->app_send(pl.data(), pl.size()); srv_spoke = true;
                        res.count("probe.eager_server_send");
                    }
                    if (eager && w.cli->is_complete() && !eager_ops) {
                        int idx = 0;
                        for (auto &op : p.ops) { if (op.k == "send" && (op.a & 1) == 0) { Bytes pl = tagged_payload(0, 100 + idx++, (size_t) op.b); w.cli->app_send(pl.data(), pl.size(), op.c & 1); eager_ops++; if (eager_ops >= 2) { break; } } }
                        if (!eager_ops) { Bytes pl = tagged_payload(0, 100, 37); w.cli->app_send(pl.data(), pl.size()); eager_ops = 1; }
                        res.count("probe.eager_client_send");
                    }
                    if (!moved && w.cli->is_complete() && w.srv->is_complete()) { break; }
                    if (!moved) { break; }
                }
            } else { w.handshake(); }
            if (last) {
                int idx = 0;
                for (auto &op : p.ops) {
                    // the application flushes pending output before its next action (EncodeClosureAlert reports SSL_FULL, it does not grow the buffer)
                    if (op.k == "send" || op.k == "close") { w.collect(DIR_C2S); w.collect(DIR_S2C); }
                    if (op.k == "send") { Bytes pl = tagged_payload((int) (op.a & 1), idx++, (size_t) op.b); w.ep((int) (op.a & 1)).app_send(pl.data(), pl.size(), op.c & 1); }
                    else if (op.k == "pump") { w.pump(); }
                    else if (op.k == "close") { w.ep((int) (op.a & 1)).app_close(); }
                }
                w.pump();
            } else {
                Bytes pl = tagged_payload(0, 99, 32); w.cli->app_send(pl.data(), pl.size()); w.pump();
                w.cli->app_close(); w.pump();
            }
            snapshot(*w.cli, c, 0); snapshot(*w.srv, c, 1);
            hist.push_back(c);
            res.count(std::string("ref.complete.") + (c.complete[0] && c.complete[1] ? "yes" : "no"));
            if (ci == 1) { res.count(w.srv->is_resumed() ? "ref.resumed" : "ref.not_resumed"); }
            fp.add(w.cli->fp.value()); fp.add(w.srv->fp.value());
            w.close_sessions();
        }
        w.teardown();
    }
    sim_global_close();
    if (res.harness_error) { return res; }
    // ---------------- phase 2: each endpoint alone, same entropy stream and clock, other partition / drain pattern
    for (int role = 0; role < 2 && !res.violation; role++) {
        int part = (int) p.get(role ? "part_s" : "part_c", PART_BYTE), drainm = (int) p.get(role ? "drain_s" : "drain_c", DRAIN_ALL);
        vsim_run_reset(p.seed);
        sim_global_open();
        {
            TlsWorld w;    // used only for key loading (same node-labelled draws as phase 1) and the durable client session id
            if (!w.setup(pc)) { res.harness_error = true; res.detail = "setup(2) failed"; }
            else {
                for (size_t ci = 0; ci < hist.size() && !res.violation; ci++) {
                    const ConnLog &c = hist[ci];
                    // the other role's session object also existed in phase 1 and drew entropy from ITS node stream only; nothing to redo here
                    Replayed o = replay_endpoint(c, role, role ? w.skeys : w.ckeys, w.sid, part, drainm, p.seed + ci);
                    std::string ctx = std::string(role ? "srv" : "cli") + "," + ver_name(pc.version) + "," + part_name(part) + ",drain" + std::to_string(drainm) + ",conn" + std::to_string(ci);
                    std::string field;
                    if (o.complete != c.complete[role]) { field = "completed"; }
                    else if (o.delivered != c.delivered[role]) { field = "delivered_data"; }
                    else if (o.alerts != c.alerts[role]) { field = "alerts_received"; }
                    else if (o.out != c.out[role]) { field = "output_bytes"; }
                    else if (o.dead != c.dead[role]) { field = "dead"; }
                    else if (!c.dead[role] && o.first_error != c.first_error[role]) { field = "error_code"; }   // once dead, which later call reports the error depends on how much was fed after death
                    else if (o.complete_before_delivery != c.complete_before_delivery[role]) { field = "complete_before_delivery"; }
                    // a partial send inside the last flight: the event must wait for the rest of the flight, as it does when the buffer is drained in one call
                    else if (o.complete_pending > 0) { field = "complete_reported_with_flight_bytes_unsent"; }
                    if (!field.empty() && p.get("trail_rec", -1) >= 0 && ci + 1 == hist.size()) {
                        // the glued alert: reported when it arrives in a read of its own, never reported when it shares the read with the flight-ending
                        // record in front of it (the response flight is built in the input buffer, over whatever followed that record)
                        auto saw = [](const std::vector<int> &al) { for (int a : al) { if (a == 2 * 256 + 40) { return true; } } return false; };
                        bool receiver = role == (p.get("trail_dir") == DIR_S2C ? 0 : 1);
                        // the reference run itself shows the defect: the alert was in this endpoint's inbound stream and it never reported it; what the
                        // replay then does with those bytes (reports the alert, or chokes on the part of it that was not dropped) depends on the partition
                        if (receiver && !saw(c.alerts[role])) { field = "bytes_behind_flight_ending_record_dropped"; ctx = std::string(role ? "srv" : "cli") + "," + ver_name(pc.version); }
                    }
                    std::string where;
                    if (field == "output_bytes") {
                        // locate the first differing byte and the record it falls into (record header types/lengths are in the clear)
                        size_t n = o.out.size() < c.out[role].size() ? o.out.size() : c.out[role].size(), d = 0;
                        while (d < n && o.out[d] == c.out[role][d]) { d++; }
                        size_t off = 0; int ri = 0;
                        while (off + 5 <= c.out[role].size()) { size_t l = 5 + ((size_t) c.out[role][off + 3] << 8 | c.out[role][off + 4]); if (d < off + l) { break; } off += l; ri++; }
                        where = " [first difference at output byte " + std::to_string(d) + ", record #" + std::to_string(ri) + " (type " + std::to_string(off < c.out[role].size() ? c.out[role][off] : -1) + "), byte " + std::to_string(d - off) + " of it]";
                    }
                    if (!field.empty()) {
                        res.violate("chunking_changes_outcome", field + "," + ctx, where +
                                    "same inbound bytes, partition '" + std::string(part_name(part)) + "' drain " + std::to_string(drainm) + ": " + field + " differs from the reference run (ref complete=" +
                                    std::to_string(c.complete[role]) + " delivered=" + std::to_string(c.delivered[role].size()) + " out=" + std::to_string(c.out[role].size()) + " err=" + std::to_string(c.first_error[role]) +
                                    "; replay complete=" + std::to_string(o.complete) + " delivered=" + std::to_string(o.delivered.size()) + " out=" + std::to_string(o.out.size()) + " err=" + std::to_string(o.first_error) + ")");
                    }
                    fp.add(hash_bytes(o.out.data(), o.out.size())); fp.add(o.complete); fp.add((uint64_t) o.first_error);
                    res.count(std::string("replay.") + part_name(part));
                }
            }
            w.teardown();
        }
        sim_global_close();
    }
    res.nontrivial = !res.harness_error && hist.size() > 0 && (hist.back().in[0].size() + hist.back().in[1].size() > 0);
    res.fingerprint = fp.value();
    res.states.push_back(std::string(ver_name(pc.version)) + "," + part_name((int) p.get("part_c")) + "," + part_name((int) p.get("part_s")) + ",conns" + std::to_string(conns) + ",fail" + std::to_string(p.get("flip_rec", -1) >= 0 ? 1 : (p.get("trust", 1) ? 0 : 2)));
    return res;
}

static ModuleRegistrar reg({ "C18", "chunk", "exploration",
    "reference run (live client+server, deliver-all) records each endpoint's inbound byte stream and application actions keyed to inbound positions; each endpoint is then re-created alone under the same per-node "
    "entropy stream and clock and fed the same stream under another partition (byte-at-a-time, record-aligned, record-straddling, header 1+4 split, random) and drain pattern (all, 1 byte, random partial sends); "
    "workloads: full, session-id/ticket/TLS 1.3 PSK resumed, client-auth, failing (unknown CA, corrupted handshake or application record) handshakes plus application data and closure. "
    "non-trivial = the reference exchanged bytes and both endpoints were replayed; distinct = distinct fingerprint of (reference history, replay outputs)",
    c18_gen, c18_exec, 1500, 40000, 75, 1200,
    { "core (incl. osdep.c)", "crypto", "matrixssl (client and server sessions)" },
    { "transport (in-memory stream; replay phase has no live peer)", "applications", "clock (frozen)", "entropy (/dev/urandom, per-node streams)", "allocator front-end" },
    { "which API call reports HANDSHAKE_COMPLETE vs APP_DATA first is not compared (documented to vary when Finished and data are coalesced); 'complete before first delivery' is",
      "application actions are replayed at the same inbound stream position as in the reference run" },
    "asan", c18_fixed, false });
