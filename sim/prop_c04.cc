// C04 - a handshake that calls for certificate authentication completes only if chain validation succeeded or the
// application's callback explicitly accepted that specific failure, and the peer proved possession of the key.
// One defect class per run (plus no-defect controls), every version x key-exchange x role x callback policy;
// the simulated wall clock (per-node skew, applied after key load) produces expired / not-yet-valid.
#include "driver.h"
#include "world.h"
#include "peek.h"

enum { D_NONE = 0, D_UNKNOWN_CA, D_EXPIRED, D_NOT_YET_VALID, D_NAME, D_FORGED_CERT, D_POP_WRONG_SIG, D_POP_OTHER_DATA, D_POP_OMITTED, D_FORGED_COPIED_SIG, D_RESUME_UNAUTH, D_POP_OMITTED_CA_AS_LEAF, D_PATHLEN, D_N };
static const char *D_NAME_S[] = { "none", "unknown_ca", "expired", "not_yet_valid", "name_mismatch", "forged_cert_sig", "pop_wrong_signature", "pop_signature_over_other_data", "pop_message_omitted", "forged_cert_with_copied_root_signature", "resumes_session_made_without_client_auth", "pop_message_omitted_with_ca_certificate_as_leaf", "chain_longer_than_root_pathlen_allows" };
static const char *CB_S[] = { "none", "strict", "allow_all", "allow_one" };

struct KexChoice { int ver; uint16_t suite; int kind; bool has_sig_pop; };   // has_sig_pop: the server signs something (SKE / CertificateVerify)
static const KexChoice KEX[] = {
    { 0, TLS_RSA_WITH_AES_128_CBC_SHA, KK_RSA2048, false }, { 1, TLS_RSA_WITH_AES_128_GCM_SHA256, KK_RSA2048, false },
    { 0, TLS_ECDHE_RSA_WITH_AES_128_CBC_SHA, KK_RSA2048, true }, { 1, TLS_ECDHE_RSA_WITH_AES_256_GCM_SHA384, KK_RSA2048, true },
    { 0, TLS_ECDHE_ECDSA_WITH_AES_128_CBC_SHA, KK_EC256, true }, { 1, TLS_ECDHE_ECDSA_WITH_AES_128_GCM_SHA256, KK_EC256, true },
    { 1, TLS_ECDH_ECDSA_WITH_AES_128_GCM_SHA256, KK_EC256, false }, { 1, TLS_ECDH_RSA_WITH_AES_128_GCM_SHA256, KK_ECDH_RSA, false },
    { 2, TLS_AES_128_GCM_SHA256, KK_EC256, true }, { 2, TLS_AES_256_GCM_SHA384, KK_RSA2048, true }, { 2, TLS_CHACHA20_POLY1305_SHA256, KK_ED25519, true }, { 2, TLS_AES_128_GCM_SHA256, KK_EC384, true },
    { 3, TLS_ECDHE_ECDSA_WITH_AES_128_CBC_SHA, KK_EC256, true }, { 4, TLS_ECDHE_RSA_WITH_AES_128_GCM_SHA256, KK_RSA2048, true }, { 4, TLS_RSA_WITH_AES_128_CBC_SHA256, KK_RSA2048, false },
};
static const int NKEX = sizeof KEX / sizeof KEX[0];

static inline bool is_pop(int d) { return d == D_POP_WRONG_SIG || d == D_POP_OTHER_DATA || d == D_POP_OMITTED || d == D_POP_OMITTED_CA_AS_LEAF; }
static Plan make_plan(int kex, int verifier_is_server, int defect, int cb, int cb_alert, uint64_t seed) {
    Plan p; p.seed = seed;
    p.cfg["kex"] = kex; p.cfg["vsrv"] = verifier_is_server; p.cfg["defect"] = defect; p.cfg["cb"] = cb; p.cfg["cb_alert"] = cb_alert;
    return p;
}

static const int ALERTS[] = { SSL_ALERT_BAD_CERTIFICATE, SSL_ALERT_UNSUPPORTED_CERTIFICATE, SSL_ALERT_CERTIFICATE_REVOKED, SSL_ALERT_CERTIFICATE_EXPIRED, SSL_ALERT_CERTIFICATE_UNKNOWN, SSL_ALERT_UNKNOWN_CA, SSL_ALERT_ACCESS_DENIED };

static Plan c04_gen(uint64_t seed, int tier, uint64_t index) {
    (void) tier; (void) index;
    Rng r(seed);
    int kex = (int) r.below(NKEX);
    int vsrv = r.chance(1, 3);
    int defect = (int) r.below(D_N);
    if (is_pop(defect) && !vsrv && !KEX[kex].has_sig_pop) { defect = D_FORGED_CERT; }
    if (defect == D_NAME && vsrv) { defect = D_EXPIRED; }
    if (defect == D_RESUME_UNAUTH && !vsrv) { defect = D_FORGED_COPIED_SIG; }
    if (defect == D_PATHLEN && KEX[kex].kind != KK_EC256) { defect = D_FORGED_CERT; }
    if (defect == D_POP_OMITTED_CA_AS_LEAF && !vsrv) { defect = D_POP_OMITTED; if (!KEX[kex].has_sig_pop) { defect = D_FORGED_CERT; } }          // servers do not match client names
    int cb = (int) r.below(4);
    if (vsrv && cb == CB_NONE) { cb = CB_STRICT; }                 // a server without a callback does not request a client certificate at all
    Plan p = make_plan(kex, vsrv, defect, cb, ALERTS[r.below(7)], seed);
    if ((defect == D_EXPIRED || defect == D_NOT_YET_VALID) && r.chance(1, 2)) {
        static const int SECOND[] = { D_UNKNOWN_CA, D_FORGED_CERT, D_NAME };
        int d2 = SECOND[r.below(3)]; if (d2 == D_NAME && vsrv) { d2 = D_UNKNOWN_CA; }
        p.cfg["defect2"] = d2;
    }
    p.cfg["skew_extra"] = (int64_t) r.below(400);                 // days added to the clock jump
    p.cfg["name_var"] = (int64_t) r.below(13);                    // which wrong expected name (name_mismatch) ...
    if (defect != D_NAME && !vsrv && r.chance(1, 3)) { p.cfg["right_name"] = 1 + (int64_t) r.below(2); }   // ... or the right one, as a control riding on other defects
    return p;
}

// full grid: every key exchange x role x defect x callback policy (allow_one with the matching and with a non-matching alert)
static std::vector<Plan> c04_fixed(int tier) {
    std::vector<Plan> v;
    for (int kex = 0; kex < NKEX; kex++) {
        for (int vsrv = 0; vsrv < 2; vsrv++) {
            if (vsrv && !tier && (kex % 3) != 0) { continue; }     // quick: a third of the server-side grid
            for (int d = 0; d < D_N; d++) {
                if (is_pop(d) && !vsrv && !KEX[kex].has_sig_pop) { continue; }
                if (d == D_NAME && vsrv) { continue; }
                if (d == D_RESUME_UNAUTH && !vsrv) { continue; }
                if (d == D_POP_OMITTED_CA_AS_LEAF && !vsrv) { continue; }
                if (d == D_PATHLEN && KEX[kex].kind != KK_EC256) { continue; }
                for (int cb = 0; cb < 4; cb++) {
                    if (vsrv && cb == CB_NONE) { continue; }
                    if (cb == CB_ALLOW_ONE) {
                        v.push_back(make_plan(kex, vsrv, d, cb, SSL_ALERT_CERTIFICATE_EXPIRED, 40000 + v.size()));
                        v.push_back(make_plan(kex, vsrv, d, cb, SSL_ALERT_UNKNOWN_CA, 40000 + v.size()));
                        v.push_back(make_plan(kex, vsrv, d, cb, SSL_ALERT_BAD_CERTIFICATE, 40000 + v.size()));
                    } else { v.push_back(make_plan(kex, vsrv, d, cb, 0, 40000 + v.size())); }
                }
            }
        }
    }
    // double defects: validity period + one of (unknown CA, forged signature, name mismatch), per key exchange and role, under a callback that accepts exactly one alert
    for (int kex = 0; kex < NKEX; kex++) {
        for (int vsrv = 0; vsrv < 2; vsrv++) {
            if (vsrv && !tier && (kex % 3) != 0) { continue; }
            for (int d1 = D_EXPIRED; d1 <= D_NOT_YET_VALID; d1++) {
                static const int SECOND[] = { D_UNKNOWN_CA, D_FORGED_CERT, D_NAME };
                for (int si = 0; si < 3; si++) {
                    if (SECOND[si] == D_NAME && vsrv) { continue; }
                    static const int AL[] = { SSL_ALERT_CERTIFICATE_EXPIRED, SSL_ALERT_UNKNOWN_CA, SSL_ALERT_BAD_CERTIFICATE, SSL_ALERT_CERTIFICATE_UNKNOWN };
                    for (int ai = 0; ai < 4; ai++) {
                        if (!tier && d1 == D_NOT_YET_VALID && ai > 0) { continue; }
                        Plan p = make_plan(kex, vsrv, d1, CB_ALLOW_ONE, AL[ai], 47000 + v.size()); p.cfg["defect2"] = SECOND[si]; v.push_back(p);
                    }
                    Plan q = make_plan(kex, vsrv, d1, vsrv ? CB_STRICT : CB_NONE, 0, 47000 + v.size()); q.cfg["defect2"] = SECOND[si]; v.push_back(q);
                }
            }
        }
    }
    // expected-name grid: every wrong name x version family x {no callback, strict callback}, plus the right name in both cases as control
    for (int kex = 0; kex < NKEX; kex += 2) {
        for (int nv = 0; nv < 13; nv++) { for (int cb = 0; cb < 2; cb++) { Plan p = make_plan(kex, 0, D_NAME, cb, 0, 45000 + v.size()); p.cfg["name_var"] = nv; v.push_back(p); } }
        for (int rn = 1; rn <= 2; rn++) { for (int cb = 0; cb < 2; cb++) { Plan p = make_plan(kex, 0, D_NONE, cb, 0, 45000 + v.size()); p.cfg["right_name"] = rn; v.push_back(p); } }
    }
    return v;
}

static RunResult c04_exec(const Plan &p) {
    RunResult res;
    int kex = (int) ((uint64_t) p.get("kex") % NKEX), vsrv = (int) p.get("vsrv"), defect = (int) p.get("defect"), cb = (int) p.get("cb");
    const KexChoice &K = KEX[kex];
    int defect2 = (int) p.get("defect2");      // a second, independent credential defect (certificate defects only): no single accepted alert covers both
    auto has = [&](int d) { return defect == d || defect2 == d; };
    vsim_run_reset(p.seed);
    sim_global_open();
    {
        PairCfg pc;
        static const uint32_t V[] = { v_tls_1_1, v_tls_1_2, v_tls_1_3, v_dtls_1_0, v_dtls_1_2 };
        pc.version = V[K.ver]; pc.suites = { K.suite }; pc.server_identity = K.kind;
        if (vsrv) { pc.client_auth = true; pc.client_identity = K.kind == KK_ECDH_RSA || K.kind == KK_ED25519 ? KK_EC256 : K.kind; pc.cb_s = cb; pc.cb_c = CB_ALLOW_ALL; }
        else { pc.cb_c = cb; pc.cb_allow_alert_c = (int) p.get("cb_alert"); }
        if (defect == D_POP_OMITTED_CA_AS_LEAF) { pc.client_cert_is_ca = true; }     // a public certificate that validates (it IS the trust anchor) and whose keyUsage lacks digitalSignature; nobody here holds its key
        // the peer's leaf hangs below a sub CA that its root (the only trust anchor) forbids with pathLenConstraint 0: every signature is genuine, the names chain, only the length is wrong
        if (defect == D_PATHLEN && K.kind == KK_EC256) { if (vsrv) { pc.client_identity = KK_EC256_PATHLEN; } else { pc.server_identity = KK_EC256_PATHLEN; } }
        if (has(D_UNKNOWN_CA) && !vsrv) { pc.client_trusts_server = false; }
        if (has(D_FORGED_CERT) || defect == D_FORGED_COPIED_SIG) { if (vsrv) { pc.forge_client_cert = true; } else { pc.forge_server_cert = true; } pc.forge_mode = defect == D_FORGED_COPIED_SIG ? 1 : 0; }
        // every test certificate is issued for DNS:localhost / IP:127.0.0.1; expected names that are NOT that name, from unrelated to near misses
        static const char *WRONG[] = { "wrong-host.example.org", "localhost.attacker.example", "LOCALHOST.corp.example.com", "localhostx", "xlocalhost", "localhos", "local", "a.localhost",
                                       "localhost.localhost", "127.0.0.10", "27.0.0.1", "localhost-1", "l0calhost" };
        // (names psX509ValidateGeneralName rejects - "xn--...", "a..b" - never reach validation: matrixSslNewClientSession refuses them)
        std::string wrong_name = WRONG[(uint64_t) p.get("name_var") % (sizeof WRONG / sizeof WRONG[0])];
        if (has(D_NAME)) { pc.expected_name = wrong_name; }
        else if (!vsrv && p.get("right_name")) { pc.expected_name = p.get("right_name") == 2 ? "LOCALHOST" : "localhost"; }   // control: the right name (any case) must not fail a handshake
        TlsWorld w;
        if (!w.setup(pc)) { res.harness_error = true; res.detail = "setup rc=" + std::to_string(w.setup_rc); }
        else {
            int vnode = vsrv ? NODE_SERVER : NODE_CLIENT;
            // the verifier's clock, jumped after the keys were loaded (loading rejects an already expired identity)
            int64_t extra = p.get("skew_extra") * 86400;
            if (has(D_UNKNOWN_CA) && vsrv) {
                // the server's CA list lacks the client's issuer: reload server keys trusting another CA
                vsim_set_node(NODE_SERVER);
                matrixSslDeleteKeys(w.skeys);
                KeySpec s; s.identity = pc.server_identity; s.ca_mask = 1u << (pc.client_identity == KK_EC384 ? KK_EC521 : KK_EC384);
                int rc = 0; w.skeys = load_keys(s, &rc);
                if (!w.skeys) { res.harness_error = true; res.detail = "server key reload failed"; }
            }
            if (!res.harness_error && has(D_EXPIRED)) { vsim_node_skew(vnode, 0, 5LL * 365 * 86400 + extra); /* every test certificate has expired by mid-2031 */ }
            if (has(D_NOT_YET_VALID)) { vsim_node_skew(vnode, 0, -15LL * 365 * 86400 - extra); }
            if (!res.harness_error && defect == D_RESUME_UNAUTH) {
                // One server process, one session cache, two kinds of server sessions: connection 1 is made on a server session that does NOT
                // ask for a client certificate (the client proves nothing); connection 2 goes to a server session configured for client
                // authentication and offers connection 1's session (id / ticket / TLS 1.3 PSK).  It may do a full handshake with client
                // authentication or fail - it must not complete as a resumption of a session in which no client was ever authenticated.
                PairCfg p1 = pc; p1.client_auth = false; p1.client_identity = KK_NONE; p1.tickets = (p.get("cb_alert") % 2) == 1 || K.ver == 2;
                PairCfg p2 = pc; p2.client_identity = KK_NONE; p2.tickets = p1.tickets;      // the client of connection 2 has no certificate at all
                // a client key set WITHOUT any identity (trusts the server's CA only): this client cannot authenticate, ever
                KeySpec cks; cks.identity = KK_NONE; cks.ca_mask = 1u << pc.server_identity;
                vsim_set_node(NODE_CLIENT);
                sslKeys_t *anon_ckeys = load_keys(cks);
                vsim_set_node(NODE_HARNESS);
                if (!anon_ckeys) { res.harness_error = true; res.detail = "anonymous client key set"; }
                TlsWorld w1; w1.adopt(w.skeys, anon_ckeys ? anon_ckeys : w.ckeys, w.sid, p1);
                bool ok1 = w1.connect() && w1.handshake();
                if (ok1) { Bytes x = tagged_payload(0, 1, 20); w1.cli->app_send(x.data(), x.size()); w1.pump(); w1.cli->app_close(); w1.pump(); }
                w1.close_sessions(); w1.teardown();
                std::string ctx = std::string(ver_name(pc.version)) + ",server," + D_NAME_S[defect] + "," + CB_S[cb] + (p1.tickets ? ",ticket" : ",id");
                if (!ok1) { res.harness_error = true; res.detail = "first (no client auth) connection failed: " + ctx; }
                else {
                    TlsWorld w2; w2.adopt(w.skeys, anon_ckeys ? anon_ckeys : w.ckeys, w.sid, p2);
                    bool ok2 = w2.connect(); if (ok2) { w2.srv->cfg.cb_allow_alert = (int) p.get("cb_alert"); w2.handshake(); }
                    bool completed = ok2 && w2.srv->is_complete(), resumed = completed && w2.srv->is_resumed();
                    res.count(std::string("outcome.") + D_NAME_S[defect] + (completed ? (resumed ? ".completed_resumed" : ".completed_full") : ".refused"));
                    bool accepted_by_cb = false; for (size_t i = 0; completed && i < w2.srv->cb_alerts.size(); i++) { if (w2.srv->cb_alerts[i] != 0) { accepted_by_cb = w2.srv->cb_last_ret == 0 || w2.srv->cb_last_ret == SSL_ALLOW_ANON_CONNECTION; } }
                    if (completed && !accepted_by_cb) {
                        res.violate("completed_with_defect", ctx, std::string("a server session configured for client authentication completed (") + (resumed ? "as a resumption" : "full handshake") +
                                    ") with a client that has no certificate: the offered session had been made on a server session that never asked for one (callback calls " + std::to_string(w2.srv->cb_calls) + ")");
                    }
                    res.nontrivial = true;
                    res.fingerprint = mix64(w2.fingerprint(), (uint64_t) (defect * 64 + cb * 8 + vsrv));
                    res.states.push_back(ctx);
                    w2.close_sessions(); w2.teardown();
                }
                if (anon_ckeys) { vsim_set_node(NODE_CLIENT); matrixSslDeleteKeys(anon_ckeys); vsim_set_node(NODE_HARNESS); }
            } else if (!res.harness_error && w.connect()) {
                // allow_one on the server side uses the same alert parameter
                if (vsrv) { w.srv->cfg.cb_allow_alert = (int) p.get("cb_alert"); }
                if (defect == D_POP_OMITTED || defect == D_POP_OMITTED_CA_AS_LEAF) {
                    // the peer (real MatrixSSL through the guarded skip hook, so both transcripts agree) sends its certificate but never the message
                    // that proves possession of the key: CertificateVerify (TLS 1.3 both roles, TLS <= 1.2 client) / ServerKeyExchange (TLS <= 1.2 server)
                    vsim_hs_skip(vsrv ? NODE_CLIENT : NODE_SERVER, (K.ver == 2 || vsrv) ? 15 : 12, 1);
                } else if (is_pop(defect)) { vsim_sign_mode(defect == D_POP_OTHER_DATA ? 1 : 0); vsim_sign_corrupt(vsrv ? NODE_CLIENT : NODE_SERVER, 8); }
                w.handshake();
                MxEndpoint &ver = vsrv ? *w.srv : *w.cli;
                bool completed = ver.is_complete();
                uint64_t corrupted = (defect == D_POP_OMITTED || defect == D_POP_OMITTED_CA_AS_LEAF) ? vsim_hs_skipped() : vsim_sign_corrupted();
                vsim_hs_skip(-1, -1, 0);
                vsim_sign_corrupt(-1, 0); vsim_sign_mode(0);
                std::string ctx = std::string(ver_name(pc.version)) + "," + (vsrv ? "server" : "client") + "," + D_NAME_S[defect] + (defect2 ? std::string("+") + D_NAME_S[defect2] : std::string()) + "," + CB_S[cb];
                res.count(std::string("outcome.") + D_NAME_S[defect] + (defect2 ? std::string("+") + D_NAME_S[defect2] : std::string()) + (completed ? ".completed" : ".refused"));
                // was the failure explicitly accepted by the application?
                bool accepted_by_cb = false;
                for (size_t i = 0; i < ver.cb_alerts.size(); i++) { if (ver.cb_alerts[i] != 0) { accepted_by_cb = ver.cb_last_ret == 0 || ver.cb_last_ret == SSL_ALLOW_ANON_CONNECTION; } }
                bool cb_saw_failure = false; for (auto a : ver.cb_alerts) { if (a != 0) { cb_saw_failure = true; } }
                if (defect == D_NONE) {
                    if (!completed) { res.harness_error = true; res.detail = "control failed: no defect but the handshake did not complete (" + ctx + ", suite " + suite_name(K.suite) + ") cli_err=" + std::to_string(w.cli->first_error) + " srv_err=" + std::to_string(w.srv->first_error); }
                } else if (is_pop(defect)) {
                    if (corrupted == 0) { res.count("fault_not_fired"); }
                    else if (completed) { res.violate("completed_with_defect", ctx, std::string((defect == D_POP_OMITTED || defect == D_POP_OMITTED_CA_AS_LEAF) ? "the peer never sent its proof-of-possession message (omitted " : defect == D_POP_OTHER_DATA ? "the peer's proof-of-possession signature was a genuine signature over OTHER data (" : "the peer's proof-of-possession signature was corrupted (") + std::to_string(corrupted) + " signature(s)) and the handshake still completed"); }
                } else if (completed) {
                    bool overridden = cb != CB_NONE && cb_saw_failure && accepted_by_cb;
                    // two defects of different kinds, and an application that accepts exactly ONE alert: whichever it was shown, the other failure was never accepted
                    if (defect2 != D_NONE && cb == CB_ALLOW_ONE) { overridden = false; }
                    if (!overridden) {
                        res.violate("completed_with_defect", ctx, "peer credential defect '" + std::string(D_NAME_S[defect]) + (defect2 ? std::string("' + '") + D_NAME_S[defect2] : std::string()) + "' and the handshake completed although no callback accepted that failure (callback policy " +
                                    CB_S[cb] + ", callback calls " + std::to_string(ver.cb_calls) + ", last alert given " + std::to_string(ver.cb_last_alert) + ", returned " + std::to_string(ver.cb_last_ret) + ")");
                    }
                }
                if (defect != D_NONE && !is_pop(defect) && cb != CB_NONE && !vsrv && !cb_saw_failure && ver.cb_calls > 0) { res.count("probe.callback_not_told_of_failure"); }
                res.nontrivial = defect != D_NONE && !(is_pop(defect) && corrupted == 0);
                res.fingerprint = mix64(w.fingerprint(), (uint64_t) (defect * 64 + cb * 8 + vsrv));
                res.states.push_back(ctx + "," + keykind_name(K.kind));
            } else if (!res.harness_error) { res.harness_error = true; res.detail = "connect failed"; }
        }
        w.teardown();
    }
    sim_global_close();
    return res;
}

static ModuleRegistrar reg({ "C04", "auth", "exploration",
    "grid + seeded swarm over 15 (version, suite, identity kind) choices (RSA transport, ECDHE-RSA, ECDHE-ECDSA, static ECDH, TLS 1.3 with ECDSA/RSA-PSS/Ed25519, DTLS) x verifier role (client; server with client auth) x one peer-credential defect "
    "(unknown CA, expired and not-yet-valid via a per-node wall-clock jump after key load, expected-name mismatch, forged certificate signature, corrupted proof-of-possession signature via the psSign seam) x callback policy "
    "(none, strict, allow-all, allow-exactly-alert-X); no-defect controls must complete. non-trivial = a defect was actually presented; distinct = distinct (history, defect, policy, role)",
    c04_gen, c04_exec, 1500, 40000, 75, 1200,
    { "core (incl. corelib_date.c on the simulated wall clock)", "crypto (X.509 parsing and chain validation)", "matrixssl" },
    { "transport", "applications and their certificate callbacks", "clock (per-node wall-clock skew)", "entropy", "allocator front-end", "psSign seam (corrupts the byzantine peer's signatures)" },
    { "the byzantine peer is MatrixSSL itself with defective credentials or corrupted signatures", "of the constraint defects needing minted certificates only pathLenConstraint is generated (minted chain, sim/assets/pathlen_chain.h); CA:FALSE issuer, keyUsage and CRL defects are not" },
    "asan", c04_fixed, false });
