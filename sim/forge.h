// A keyless attacker's toolkit (uses libcrypto, which is linked for the C10 peer anyway): TLS 1.2 PRF, key block and AES-128-GCM record
// sealing, so that the simulator can play a server that knows nothing but the public hello values and GUESSES the master secret.
#pragma once
#include "util.h"
Bytes forge_tls12_prf_sha256(const Bytes &secret, const std::string &label, const Bytes &seed, size_t outlen);
Bytes forge_sha256(const Bytes &data);
// AES-128-GCM TLS 1.2 record: returns header + explicit nonce + ciphertext + tag
Bytes forge_gcm_record(uint8_t type, const Bytes &key16, const Bytes &iv4, uint64_t seq, const Bytes &plaintext);
