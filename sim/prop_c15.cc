// C15 - after a fatal error or closure a session stays dead: no delivery, no sealing of application data or
// handshake messages, error/close on later calls - for every protocol version.
#include "proto.h"

static const int LENS[] = { 1, 16, 100, 1000, 4096 };

// death triggers: each is a small op sequence aimed at one endpoint ("victim" = receiver of dir)
static void add_trigger(Rng &r, Plan &p, int dir, bool established) {
    int k = (int) r.below(established ? 9 : 6);
    switch (k) {
    case 0:   // plaintext alert (meaningful before encryption; after it, it is just another forged record)
        p.ops.push_back(Op("inject", dir, (int64_t) r.below(7), (int64_t) r.below(21), (int64_t) (r.below(3) * 2), "alert")); break;
    case 1: p.ops.push_back(Op("inject", dir, (int64_t) r.below(7), (int64_t) r.below(50), (int64_t) (r.below(3) * 2), "garbage")); break;
    case 2: p.ops.push_back(Op("inject", dir, (int64_t) (6 + r.below(2)), (int64_t) r.below(5), (int64_t) (r.below(3) * 2), "plain23")); break;   // 16384 / 16385 bytes
    case 3: p.ops.push_back(Op("inject", dir, (int64_t) r.below(14), (int64_t) r.below(6), (int64_t) (r.below(3) * 2), "hsmsg")); break;
    case 4: p.ops.push_back(Op("inject", dir, 0, 0, (int64_t) (r.below(3) * 2), "ccs")); break;
    case 5: p.ops.push_back(Op("inject", dir, (int64_t) r.below(100), (int64_t) r.below(4), (int64_t) (r.below(3) * 2), r.chance(1, 2) ? "relabel" : "reflect")); break;
    case 6: {  // corrupt an honest protected record
        static const char *M[] = { "flip", "flip", "trunc", "extend", "type", "ver", "dup" };
        p.ops.push_back(Op("arm", dir, (int64_t) r.below(1u << 20), (int64_t) r.below(1u << 16), 0, M[r.below(7)]));
        p.ops.push_back(Op("send", dir, LENS[r.below(5)]));
        p.ops.push_back(Op("pump"));
        break;
    }
    case 7:   // honest closure by the peer application: victim receives close_notify
        p.ops.push_back(Op("close", dir)); p.ops.push_back(Op("pump")); break;
    case 8:   // honest peer application cannot send a fatal alert through the API; replay a captured record instead
        p.ops.push_back(Op("inject", dir, (int64_t) r.below(100), 0, 0, "replay")); break;
    }
}

static void add_continuation(Rng &r, Plan &p, int dir) {
    int n = 1 + (int) r.below(4);
    for (int i = 0; i < n; i++) {
        switch (r.below(6)) {
        case 0: case 1: p.ops.push_back(Op("send", dir, LENS[r.below(5)])); break;                          // honest peer keeps talking
        case 2: { static const int ROUTE[] = { 0, 1, 2, 2, 4, 4 }; p.ops.push_back(Op("send", 1 - dir, LENS[r.below(5)], ROUTE[r.below(6)])); break; }        // the dead endpoint's application tries to send: EncodeToOutdata / GetWritebuf+EncodeWritebuf / EncodeToUserBuf / the second half of a write begun before death
        case 3: p.ops.push_back(Op("inject", dir, (int64_t) r.below(100), 0, 0, "replay")); break;           // e.g. the original of the corrupted record
        case 4: p.ops.push_back(Op("inject", dir, (int64_t) r.below(7), (int64_t) r.below(50), 0, "garbage")); break;
        case 5: p.ops.push_back(Op("pump")); break;
        }
        if (p.get("ver") >= 3 && r.chance(1, 2)) { p.ops.push_back(Op("timer", (int64_t) r.below(2))); }      // DTLS: the resend timer of either endpoint fires (the dead one included)
    }
    p.ops.push_back(Op("pump"));
    p.ops.push_back(Op("send", 1 - dir, 10));
    p.ops.push_back(Op("send", dir, 10));
    p.ops.push_back(Op("pump"));
}

static Plan c15_gen(uint64_t seed, int tier, uint64_t index) {
    (void) tier; (void) index;
    Rng r(seed);
    Plan p;
    gen_pair_cfg(r, p, true);
    if (r.chance(1, 4) && p.get("ver") != 2 && !(p.get("ver") >= 3 && p.get("tickets"))) { p.cfg["resume"] = 1; }
    if (p.get("ver") == 2 && r.chance(1, 5)) {
        // TLS 1.3 server that REJECTS offered early data (HelloRetryRequest) must give up once more undecryptable bytes than its
        // early-data limit have arrived: the fatal condition is "budget exceeded", the trigger is the honest client's own early data
        static const int LIM[] = { 300, 1024, 1024, 16384 };
        p.cfg["early"] = LIM[r.below(4)];
        if (r.chance(1, 2)) { p.cfg["extpsk"] = 1; p.cfg["suite"] = TLS_AES_128_GCM_SHA256; }      // early data offered under an external PSK is never accepted: the server skips it
        else { p.cfg["resume"] = 1; p.cfg["tickets"] = 1; p.cfg["early1"] = 16384; p.cfg["grp_c1"] = 23; p.cfg["grp_c2"] = 24; p.cfg["key_shares"] = 1; p.cfg["grp_s1"] = 24; }
        int ne = 2 + (int) r.below(7);
        for (int i = 0; i < ne; i++) { p.ops.push_back(Op("early_send", 0, (int64_t) (100 + r.below(500)), (int64_t) r.below(2))); }
        p.ops.push_back(Op("hs"));
        add_continuation(r, p, 0);
        return p;
    }
    bool established = r.chance(3, 5);
    int dir = (int) r.below(2);
    if (established) {
        p.ops.push_back(Op("hs"));
        int pre = (int) r.below(3);
        for (int i = 0; i < pre; i++) { p.ops.push_back(Op("send", (int64_t) r.below(2), LENS[r.below(5)])); }
        if (pre) { p.ops.push_back(Op("pump")); }
    } else {
        int park = (int) r.below(12);
        if (park) { p.ops.push_back(Op("steps", park)); }
    }
    if (established && r.chance(1, 3)) { p.ops.push_back(Op("wbegin", 1 - dir, LENS[r.below(5)])); }     // the victim's application is half-way through a write when the session dies
    add_trigger(r, p, dir, established);
    add_continuation(r, p, dir);
    return p;
}

// aimed: every alert description, plaintext, at every early parking point, then let the honest handshake go on
static std::vector<Plan> c15_fixed(int tier) {
    std::vector<Plan> v;
    static const int descs[] = { 0, 1, 2, 3, 4, 5, 6, 7, 8, 9, 10, 11, 12, 13, 14, 15, 16, 17, 18, 19, 20 };   // indices into the alert table of craft()
    int nd = (int) (sizeof descs / sizeof descs[0]);
    for (int ver = 0; ver < 5; ver++) {
        for (int park = 0; park <= (tier ? 7 : 2); park++) {
            for (int di = 0; di < nd; di++) {
                for (int dir = 0; dir < 2; dir++) {
                    Plan p; p.seed = 900000 + (uint64_t) (((ver * 10 + park) * 32 + di) * 2 + dir);
                    p.cfg["ver"] = ver;
                    if (ver == 2) { p.cfg["suite"] = TLS_AES_128_GCM_SHA256; p.cfg["sid_kind"] = KK_EC256; }
                    else { p.cfg["suite"] = TLS_ECDHE_ECDSA_WITH_AES_128_CBC_SHA; }
                    if (park) { p.ops.push_back(Op("steps", park)); }
                    p.ops.push_back(Op("inject", dir, 1 /* level fatal */, descs[di], 0, "alert"));
                    p.ops.push_back(Op("hs"));
                    p.ops.push_back(Op("send", dir, 20)); p.ops.push_back(Op("send", 1 - dir, 20)); p.ops.push_back(Op("pump"));
                    v.push_back(p);
                }
            }
        }
    }
    // every application write route of a dead session: EncodeToOutdata, GetWritebuf+EncodeWritebuf, EncodeToUserBuf, and the second half of a
    // write that was begun (GetWritebuf) while the session was alive; death by the peer's close_notify, by a corrupted record, by a forged fatal alert
    for (int ver = 0; ver < 5; ver++) {
        for (int victim = 0; victim < 2; victim++) {
            for (int death = 0; death < 3; death++) {
                static const int ROUTE[] = { 0, 1, 2, 4 };
                for (int ri = 0; ri < 4; ri++) {
                    Plan p; p.seed = 970000 + (uint64_t) (((ver * 2 + victim) * 3 + death) * 4 + ri);
                    p.cfg["ver"] = ver;
                    if (ver == 2) { p.cfg["suite"] = TLS_AES_128_GCM_SHA256; p.cfg["sid_kind"] = KK_EC256; } else { p.cfg["suite"] = (death & 1) ? TLS_ECDHE_ECDSA_WITH_AES_128_CBC_SHA : TLS_ECDHE_ECDSA_WITH_AES_128_GCM_SHA256; if (ver == 0 || ver == 3) { p.cfg["suite"] = TLS_ECDHE_ECDSA_WITH_AES_128_CBC_SHA; } }
                    p.ops.push_back(Op("hs")); p.ops.push_back(Op("send", victim, 40)); p.ops.push_back(Op("send", 1 - victim, 40)); p.ops.push_back(Op("pump"));
                    if (ROUTE[ri] == 4) { p.ops.push_back(Op("wbegin", victim, 100)); }
                    if (death == 0) { p.ops.push_back(Op("close", 1 - victim)); }
                    else if (death == 1) { p.ops.push_back(Op("arm", 1 - victim, 333, 5, 0, "flip")); p.ops.push_back(Op("send", 1 - victim, 64)); }
                    else { p.ops.push_back(Op("inject", 1 - victim, 1, 6, 2, "alert")); }
                    p.ops.push_back(Op("pump"));
                    p.ops.push_back(Op("send", victim, 100, ROUTE[ri])); p.ops.push_back(Op("pump"));
                    p.ops.push_back(Op("send", victim, 10, ROUTE[ri] == 4 ? 2 : ROUTE[ri])); p.ops.push_back(Op("pump"));
                    v.push_back(p);
                }
            }
        }
    }
    // DTLS: the application's resend timer fires on an endpoint that is already dead (fatal alert received at any parking point / after
    // completion, close_notify received): it must not rebuild and re-send its last handshake flight
    for (int ver = 3; ver < 5; ver++) {
        for (int dir = 0; dir < 2; dir++) {
            for (int park = 0; park <= 6; park++) {
                Plan p; p.seed = 960000 + (uint64_t) ((ver * 2 + dir) * 16 + park);
                p.cfg["ver"] = ver; p.cfg["suite"] = ver == 3 ? TLS_ECDHE_ECDSA_WITH_AES_128_CBC_SHA : TLS_ECDHE_ECDSA_WITH_AES_128_GCM_SHA256;
                if (park < 6) { p.ops.push_back(Op("steps", park)); } else { p.ops.push_back(Op("hs")); }
                p.ops.push_back(Op("inject", dir, 1, 6 /* a fatal description */, 0, "alert")); p.ops.push_back(Op("pump"));
                p.ops.push_back(Op("timer", 1 - dir)); p.ops.push_back(Op("timer", dir)); p.ops.push_back(Op("timer", 1 - dir)); p.ops.push_back(Op("pump"));
                v.push_back(p);
            }
            {
                Plan p; p.seed = 961000 + (uint64_t) (ver * 2 + dir);
                p.cfg["ver"] = ver; p.cfg["suite"] = TLS_ECDHE_ECDSA_WITH_AES_128_CBC_SHA;
                p.ops.push_back(Op("hs")); p.ops.push_back(Op("close", dir)); p.ops.push_back(Op("pump"));
                p.ops.push_back(Op("timer", 1 - dir)); p.ops.push_back(Op("timer", dir)); p.ops.push_back(Op("pump"));
                v.push_back(p);
            }
        }
    }
    // TLS 1.3 server rejecting early data (HelloRetryRequest): client early data below, at and above the server's early-data limit
    {
        static const uint16_t S13[] = { TLS_AES_128_GCM_SHA256, TLS_AES_256_GCM_SHA384, TLS_CHACHA20_POLY1305_SHA256 };
        static const int LIM[] = { 300, 1024 };
        for (int su = 0; su < 4; su++) { for (int li = 0; li < 2; li++) { for (int n = 1; n <= 8; n += (n < 4 ? 1 : 4)) { for (int len = 200; len <= 400; len += 200) {
            Plan p; p.seed = 950000 + (uint64_t) (su * 1000 + li * 100 + n * 10 + len / 200);
            p.cfg["ver"] = 2; p.cfg["sid_kind"] = KK_EC256; p.cfg["early"] = LIM[li];
            if (su == 3) { p.cfg["suite"] = TLS_AES_128_GCM_SHA256; p.cfg["extpsk"] = 1; }    // rejection because the PSK is an external one
            else { p.cfg["suite"] = S13[su]; p.cfg["resume"] = 1; p.cfg["tickets"] = 1; p.cfg["early1"] = 16384; p.cfg["grp_c1"] = 23; p.cfg["grp_c2"] = 24; p.cfg["key_shares"] = 1; p.cfg["grp_s1"] = 24; }
            for (int i = 0; i < n; i++) { p.ops.push_back(Op("early_send", 0, len, i & 1)); }
            p.ops.push_back(Op("hs")); p.ops.push_back(Op("send", 0, 20)); p.ops.push_back(Op("send", 1, 20)); p.ops.push_back(Op("pump"));
            v.push_back(p);
        } } } }
    }
    return v;
}

static RunResult c15_exec(const Plan &p) {
    RunResult res;
    vsim_run_reset(p.seed);
    sim_global_open();
    {
        ProtoRun pr(p);
        pr.run();
        if (pr.setup_failed) { res.harness_error = true; res.detail = pr.setup_detail + " cfg=" + cfg_label(p); }
        else {
            ProtoObs &o = pr.obs;
            std::string ver = ver_name(pr.pc.version);
            bool any_dead = false;
            for (int role = 0; role < 2 && !res.violation; role++) {
                res.count("aead_open_failures", o.aead_fail[role]);
                if (o.aead_fail_survived[role]) {
                    res.violate("decryption_failure_tolerated", std::string(role ? "srv" : "cli") + "," + ver + "," + o.aead_fail_survived_ctx[role],
                                std::to_string(o.aead_fail_survived[role]) + " record(s) failed authenticated decryption inside the session and the session was not dead afterwards (no error, alert or close reported); "
                                "the only undecryptable records a session may tolerate are those a TLS 1.3 server skips while rejecting early data");
                }
            }
            for (int role = 0; role < 2 && !res.violation; role++) {
                if (!o.death[role].dead) { continue; }
                any_dead = true;
                std::string ctx = std::string(role ? "srv" : "cli") + "," + ver + "," + o.death[role].kind;
                res.count("death." + o.death[role].kind + "." + ver);
                if (o.appdata_after_death[role]) {
                    res.violate("appdata_after_death", ctx, std::to_string(o.appdata_after_death[role]) + " application-data chunk(s) delivered after the session died (" + o.death[role].kind + ")");
                } else if (o.encode_ok_after_death[role]) {
                    res.violate("encode_after_death", ctx, "an application-data encode call succeeded after the session died (" + o.death[role].kind + ")");
                } else if (o.nonalert_records_after_death[role]) {
                    res.violate("record_after_death", ctx + "," + o.nonalert_after_death_what[role], "the dead session emitted a non-alert record (" + o.nonalert_after_death_what[role] + ")");
                } else if (o.success_rc_after_death[role]) {
                    res.violate("success_after_death", ctx + "," + o.success_api_after_death[role], "an API call reported progress after death: " + o.success_api_after_death[role]);
                }
            }
            // ground truth: a fatal alert handed over in plaintext-read state must kill the session, whatever the API reported
            for (int role = 0; role < 2 && !res.violation; role++) {
                if (o.fatal_alert_given[role]) {
                    res.count("fatal_alert_given");
                    if (!o.death[role].dead) {
                        res.violate("fatal_alert_ignored", std::string(role ? "srv" : "cli") + "," + ver + ",desc" + std::to_string(o.fatal_alert_desc[role]),
                                    "a fatal alert (description " + std::to_string(o.fatal_alert_desc[role]) + ") was received but the session did not die");
                    }
                }
            }
            // TLS 1.3 server: protected records swallowed without progress before completion are the "skip rejected early data" allowance;
            // it is bounded by the server session's early-data limit (RFC 8446 4.2.10), and is zero when no early data was on offer
            if (!res.violation && o.skipped_records) {
                size_t bound = ((p.get("resume") && p.get("early1", p.get("early")) > 0) || p.get("extpsk")) ? (size_t) pr.pc.max_early_data : 0;
                res.count("early.server_skipped_bytes", (int64_t) o.skipped_undecryptable_bytes);
                if (o.skipped_undecryptable_bytes > bound) {
                    res.violate("undecryptable_records_tolerated", "srv," + ver + (bound ? ",early_data_rejected" : ",no_early_data_offered"),
                                "the server swallowed " + std::to_string(o.skipped_undecryptable_bytes) + " bytes in " + std::to_string(o.skipped_records) + " undecryptable records before completion and stayed alive; its early-data limit is " +
                                std::to_string(bound) + ": beyond that an undecryptable record is a fatal bad_record_mac");
                }
            }
            // TLS 1.3: whatever a dead node seals must be an alert (inner type 21)
            for (int role = 0; role < 2 && !res.violation; role++) {
                if (!o.death[role].dead || pr.pc.dtls()) { continue; }
                MxEndpoint &e = role == 0 ? *pr.w.cli : *pr.w.srv;
                if ((e.negotiated_version() & 0xffffff) != v_tls_1_3) { continue; }
                // seals are ordered; the ones after the node's death-time count
                size_t n_at_death = o.death[role].delivered_at;   // placeholder to keep fingerprint stable
                (void) n_at_death;
                for (auto &s : o.seals) {
                    if (s.node != e.node || s.seq < pr.seal_seq_at_death[role]) { continue; }
                    if (s.kind == VSIM_PR_CBC_ENC) { continue; }
                    if (s.inner_type != 21) {
                        res.violate("record_after_death", std::string(role ? "srv" : "cli") + "," + ver + "," + o.death[role].kind + ",inner_type_" + std::to_string(s.inner_type),
                                    "a dead TLS 1.3 session sealed a record with inner content type " + std::to_string(s.inner_type));
                        break;
                    }
                }
            }
            res.nontrivial = any_dead || o.fatal_alert_given[0] || o.fatal_alert_given[1] || o.skipped_records > 0;
            res.fingerprint = pr.fingerprint();
            for (auto &kv : o.counters) { res.counters[kv.first] += kv.second; }
            res.states = o.states;
        }
    }
    sim_global_close();
    return res;
}

static ModuleRegistrar reg({ "C15", "proto", "exploration",
    "seeded plans: swarm cfg x (established connection | handshake parked after k records) x one death trigger aimed at one endpoint (plaintext alert of every description, garbage, "
    "oversize record, illegal/early handshake message, early CCS, relabelled/reflected/replayed record, corrupted protected record, honest close_notify) x continuation (honest peer keeps "
    "sending, the dead endpoint's application sends, replay of the corrupted record's original, more garbage); fixed plans: a fatal plaintext alert of each description at each early parking "
    "point per role and version. non-trivial = some endpoint died (error return, fatal alert or close_notify received, alert sent) and a continuation ran; distinct = distinct history fingerprint",
    c15_gen, c15_exec, 5000, 120000, 75, 1200,
    { "core (incl. osdep.c)", "crypto", "matrixssl (client and server sessions)" },
    { "transport (in-memory stream/datagram link)", "attacker", "applications", "clock", "entropy (/dev/urandom)", "allocator front-end", "AEAD seal probe (link-time wrap, observes only)" },
    { "a session that has itself sent close_notify may still receive (half-close): only its own later encodes are judged", "TLS 1.3 inner content types are read through the seal probe" },
    "asan", c15_fixed, false });
