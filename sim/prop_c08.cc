// C08 - no memory fault, hang or leak on any network input in any state.
// Workload: live transcripts of every version / suite family / auth / resumption mode, parked at arbitrary record boundaries; the on-path
// adversary edits records (bit flips, boundary values in 1/2/3-byte fields, handshake/fragment header fields, record header fields, truncation,
// extension, re-fragmentation, duplication, reordering, forged and replayed records), a byzantine peer edits plaintext before sealing so that
// post-decryption parsers run, and the stream is re-chunked.  Oracles: sanitizers (ASan crash classes via the driver, every UBSan report),
// documented return codes, allocation and I/O buffer bounds, zero live library blocks after teardown.
#include "proto.h"
#include "peek.h"
#include "keys.h"

static const char *ARM[] = { "setword", "setword", "setbyte", "set3", "hsfield", "hsfield", "hsfield", "flipbit", "flipbit", "trunc", "extend", "setlen", "setlen",
                             "type", "ver", "epoch", "seq", "dup", "drop", "swapnext", "refrag", "refrag", "grow", "grow", "grow", "shrink", "fragmove", "cutfront", "vecgrow", "vecgrow", "vecgrow", "dupext", "dupext" };
static const char *INJ[] = { "garbage", "plain23", "replay", "reflect", "cross", "relabel", "alert", "hsmsg", "hsmsg", "ccs", "ccs_tail", "regrow" };
static const int PMTUS[] = { 1500, 1500, 900, 600, 400 };

static void add_fault(Rng &r, Plan &p, bool aead) {
    unsigned k = (unsigned) r.below(10);
    int dir = (int) r.below(2);
    if (k < 7) {
        p.ops.push_back(Op("arm", dir, (int64_t) r.below(4096), (int64_t) r.below(1 << 16), r.chance(1, 3) ? (int64_t) (1 + r.below(4)) : 0, ARM[r.below(sizeof ARM / sizeof ARM[0])]));
    } else if (k < 9 || !aead) {
        p.ops.push_back(Op("inject", dir, (int64_t) r.below(1000), (int64_t) r.below(50), (int64_t) (r.below(3) * 2), INJ[r.below(sizeof INJ / sizeof INJ[0])]));
    } else {
        p.ops.push_back(Op("ptmut", dir, (int64_t) r.below(6), (int64_t) r.below(4096), (int64_t) r.below(1u << 20)));
    }
}

static Plan c08_gen(uint64_t seed, int tier, uint64_t index) {
    (void) tier; (void) index;
    Rng r(seed);
    Plan p;
    gen_pair_cfg(r, p, true);
    int ver = (int) p.get("ver");
    bool aead = ver == 2 || suite_is_aead((uint16_t) p.get("suite"));
    if (ver >= 3) { p.cfg["pmtu"] = PMTUS[r.below(sizeof PMTUS / sizeof PMTUS[0])]; }
    if (ver < 3 && r.chance(1, 2)) { p.cfg["split"] = 1 + (int64_t) r.below(3); }
    if (r.chance(1, 3)) { p.cfg["sibling"] = 1; }
    if (r.chance(1, 3)) { p.cfg["sni"] = 1 + (int64_t) r.below(p.get("ver") == 2 ? 2 : 3); p.scfg["expected_name"] = "localhost"; }     // the client sends server_name (+ ALPN, + a private extension)
    if (r.chance(1, 4)) { p.cfg["chain"] = 1; }          // identities presented as two-element chains (leaf + issuer)
    if (r.chance(1, 6) && ver != 2) { p.cfg["resume"] = 1; if (p.get("tickets") && r.chance(1, 2)) { p.cfg["rotate"] = 1; } }
    if (p.get("resume") && p.get("tickets") && r.chance(1, 3)) { p.cfg["tkcut"] = 1 + (int64_t) r.below(140); }
    // faults early in the handshake (plaintext parsers), at arbitrary parking points
    int nf = 1 + (int) r.below(4);
    for (int i = 0; i < nf; i++) {
        if (r.chance(2, 3)) { p.ops.push_back(Op("steps", (int64_t) r.below(8))); }
        add_fault(r, p, aead);
        if (ver >= 3 && r.chance(1, 3)) { p.ops.push_back(Op("steps", (int64_t) r.below(3))); p.ops.push_back(Op("timer", (int64_t) r.below(2))); }   // DTLS: a resend timer fires right behind the fault
        if (aead && r.chance(1, 4)) { p.ops.push_back(Op("ptmut", (int64_t) r.below(2), (int64_t) r.below(6), (int64_t) r.below(4096), (int64_t) r.below(1u << 20))); }
    }
    p.ops.push_back(Op("hs"));
    // connected state
    int ns = (int) r.below(3);
    for (int i = 0; i < ns; i++) {
        if (r.chance(1, 2)) { add_fault(r, p, aead); }
        // CBC: some payload lengths that make the last block pure padding (HMAC-SHA1: len = 12 mod 16; SHA-256/384: 0 mod 16)
        int64_t slen = (int64_t) (1 + r.below(r.chance(1, 4) ? 40000 : 2000));
        if (!aead && r.chance(1, 4)) { slen = (int64_t) ((r.chance(2, 3) ? 12 : 16) + 16 * r.below(5)); }
        p.ops.push_back(Op("send", (int64_t) r.below(2), slen, (int64_t) r.below(2)));
    }
    if (ns && r.chance(1, 3)) { int vd = (int) r.below(2); p.ops.push_back(Op("sendq", vd, (int64_t) (1 + r.below(3000)))); p.ops.push_back(Op("deliverq", 1 - vd)); }
    p.ops.push_back(Op("pump"));
    if (r.chance(1, 3)) { p.ops.push_back(Op("close", (int64_t) r.below(2))); p.ops.push_back(Op("pump")); }
    if (ver >= 3 && r.chance(1, 2)) { p.ops.push_back(Op("timer", (int64_t) r.below(2))); p.ops.push_back(Op("timer", (int64_t) r.below(2))); p.ops.push_back(Op("pump")); }
    return p;
}

// aimed plans: every handshake-header field edit x every early record of each direction, per version (the DTLS fragment fields included)
static std::vector<Plan> c08_fixed(int tier) {
    std::vector<Plan> v;
    int maxpark = tier ? 9 : 6;
    for (int ver = 0; ver < 5; ver++) {
        for (int park = 0; park <= maxpark; park++) {
            for (int field = 0; field < (ver >= 3 ? 4 : 1); field++) {
                for (int val = 0; val < (tier ? 8 : 4); val++) {
                    Plan p; p.seed = 80000 + (uint64_t) (ver * 10000 + park * 100 + field * 10 + val);
                    p.cfg["ver"] = ver;
                    if (ver == 2) { p.cfg["suite"] = TLS_AES_128_GCM_SHA256; p.cfg["sid_kind"] = KK_EC256; }
                    else { p.cfg["suite"] = (park & 1) ? TLS_ECDHE_RSA_WITH_AES_128_CBC_SHA : TLS_RSA_WITH_AES_128_CBC_SHA; }
                    if (ver >= 3) { p.cfg["pmtu"] = (val & 1) ? 400 : 1500; }
                    if (park) { p.ops.push_back(Op("steps", park)); }
                    // value selector: (val>>0)&3 in bits 8.. selects +1 / -1 / +bodylen / table
                    p.ops.push_back(Op("arm", park & 1, field, (int64_t) ((val % 4) << 8 | (val * 3 % 10)), 0, "hsfield"));
                    p.ops.push_back(Op("hs"));
                    v.push_back(p);
                }
            }
        }
    }
    // authenticated-but-malicious peer: every AEAD-sealed handshake message of a TLS 1.3 handshake (EncryptedExtensions, CertificateRequest,
    // Certificate, CertificateVerify, Finished, NewSessionTicket; client Certificate / CertificateVerify / Finished) and the TLS 1.2 GCM
    // Finished, edited before sealing at a sweep of offsets with boundary values, so that the post-decryption parsers see well-authenticated garbage
    for (int cfgi = 0; cfgi < 3; cfgi++) {          // 0: TLS 1.3, 1: TLS 1.3 + client auth + tickets, 2: TLS 1.2 GCM
        for (int dir = 0; dir < 2; dir++) {
            for (int nth = 0; nth < (cfgi == 2 ? 1 : 6); nth++) {
                int noff = tier ? 96 : 24;
                for (int oi = 0; oi < noff; oi++) {
                    for (int vi = 0; vi < (tier ? 4 : 2); vi++) {
                        int off = oi < 12 ? oi : 12 + (oi - 12) * (tier ? 9 : 37);
                        static const int W[] = { 1, 2, 1, 3 }; static const int MODE[] = { 0, 0, 1, 3 }; static const int VAL[] = { 0xff, 0xffff, 0, 0x800000 };
                        Plan p; p.seed = 88000 + (uint64_t) ((((cfgi * 2 + dir) * 6 + nth) * 100 + oi) * 4 + vi);
                        if (cfgi == 2) { p.cfg["ver"] = 1; p.cfg["suite"] = TLS_ECDHE_RSA_WITH_AES_128_GCM_SHA256; }
                        else { p.cfg["ver"] = 2; p.cfg["suite"] = TLS_AES_128_GCM_SHA256; p.cfg["sid_kind"] = KK_EC256; if (cfgi == 1) { p.cfg["cauth"] = KK_EC256; p.cfg["tickets"] = 1; } }
                        p.ops.push_back(Op("ptmut", dir, nth, off, (W[vi] - 1) | (MODE[vi] << 2) | (VAL[vi] << 4)));
                        p.ops.push_back(Op("hs")); p.ops.push_back(Op("send", 1 - dir, 50)); p.ops.push_back(Op("pump"));
                        v.push_back(p);
                    }
                }
            }
        }
    }
    // CBC records whose leading blocks (explicit IV, then data) are cut off while the sender's last blocks - a whole block of padding - stay
    for (int ver = 0; ver < 5; ver++) {
        if (ver == 2) { continue; }
        static const uint16_t S[] = { TLS_RSA_WITH_AES_128_CBC_SHA, TLS_RSA_WITH_AES_256_CBC_SHA, TLS_RSA_WITH_AES_128_CBC_SHA256 };
        for (int si = 0; si < 3; si++) {
            if (S[si] == TLS_RSA_WITH_AES_128_CBC_SHA256 && (ver == 0 || ver == 3)) { continue; }
            for (int dir = 0; dir < 2; dir++) {
                for (int len = 0; len < 3; len++) {
                    for (int cut = 0; cut < (tier ? 6 : 3); cut++) {
                        Plan p; p.seed = 86000 + (uint64_t) ((((ver * 3 + si) * 2 + dir) * 3 + len) * 6 + cut);
                        p.cfg["ver"] = ver; p.cfg["suite"] = S[si];
                        if (ver >= 3) { p.cfg["pmtu"] = 1500; }
                        p.ops.push_back(Op("hs"));
                        p.ops.push_back(Op("arm", dir, cut, 0, 0, "cutfront"));
                        p.ops.push_back(Op("send", dir, (S[si] == TLS_RSA_WITH_AES_128_CBC_SHA256 ? 16 : 12) + 16 * len));
                        p.ops.push_back(Op("pump"));
                        v.push_back(p);
                    }
                }
            }
        }
    }
    // DTLS with real fragmentation (PMTU 400 / 600): every early record of each direction re-labelled as a fragment of a longer message
    // that starts at or after the originally announced end
    for (int ver = 3; ver < 5; ver++) {
        for (int pm = 0; pm < 2; pm++) {
            for (int park = 0; park <= (tier ? 14 : 10); park++) {
                for (int dir = 0; dir < 2; dir++) {
                    for (int var = 0; var < (tier ? 6 : 2); var++) {
                        Plan p; p.seed = 87000 + (uint64_t) (ver * 10000 + pm * 2000 + park * 100 + dir * 10 + var);
                        p.cfg["ver"] = ver; p.cfg["suite"] = TLS_RSA_WITH_AES_128_CBC_SHA; p.cfg["pmtu"] = pm ? 600 : 400;
                        if (park) { p.ops.push_back(Op("steps", park)); }
                        p.ops.push_back(Op("arm", dir, var * 2 + 1, var & 1, park % 4, "fragmove"));     // the (park%4+1)-th next record: later fragments of a flight too
                        p.ops.push_back(Op("hs"));
                        v.push_back(p);
                    }
                }
            }
        }
    }
    // a second connection that presents only the first N bytes of the session ticket the first connection was issued, every N
    for (int ver = 0; ver < 5; ver++) {
        if (ver == 2) { continue; }
        for (int n = 1; n <= 130; n += (tier ? 1 : (n < 20 || (n > 60 && n < 68) ? 1 : 5))) {
            Plan p; p.seed = 80000 + 9000 + (uint64_t) (ver * 200 + n);
            p.cfg["ver"] = ver; p.cfg["suite"] = (n & 1) ? TLS_RSA_WITH_AES_128_CBC_SHA : TLS_ECDHE_RSA_WITH_AES_128_CBC_SHA; p.cfg["tickets"] = 1; p.cfg["resume"] = 1; p.cfg["tkcut"] = n;
            p.ops.push_back(Op("hs")); p.ops.push_back(Op("send", 0, 20)); p.ops.push_back(Op("pump"));
            v.push_back(p);
        }
    }
    // a record that makes the receiver answer on its own (bad MAC / tag, garbage, unexpected message) arrives while the receiver still has
    // unsent application output of every size around its buffer capacity pending
    for (int ver = 0; ver < 5; ver++) {
        static const int PEND[] = { 16, 1200, 1400, 1440, 1460, 1480, 1500, 2900, 4000, 16000 };
        for (int pi = 0; pi < 10; pi++) {
            for (int victim = 0; victim < 2; victim++) {
                for (int how = 0; how < 3; how++) {
                    Plan p; p.seed = 82000 + (uint64_t) (((ver * 10 + pi) * 2 + victim) * 3 + how);
                    p.cfg["ver"] = ver;
                    if (ver == 2) { p.cfg["suite"] = TLS_AES_128_GCM_SHA256; p.cfg["sid_kind"] = KK_EC256; }
                    else { p.cfg["suite"] = (pi & 1) ? TLS_ECDHE_RSA_WITH_AES_128_GCM_SHA256 : TLS_RSA_WITH_AES_128_CBC_SHA; if (ver == 0 || ver == 3) { p.cfg["suite"] = TLS_RSA_WITH_AES_128_CBC_SHA; } }
                    p.ops.push_back(Op("hs"));
                    p.ops.push_back(Op("send", victim, 30)); p.ops.push_back(Op("send", 1 - victim, 30)); p.ops.push_back(Op("pump"));
                    if (how == 0) { p.ops.push_back(Op("arm", 1 - victim, 77, 9, 0, "flipbit")); p.ops.push_back(Op("send", 1 - victim, 40)); }
                    else { p.ops.push_back(Op("inject", 1 - victim, how == 1 ? 3 : 5, 7, 2, how == 1 ? "garbage" : "hsmsg")); }
                    p.ops.push_back(Op("sendq", victim, PEND[pi])); if (PEND[pi] > 1000 && ver < 3) { p.ops.push_back(Op("sendq", victim, 37)); }
                    p.ops.push_back(Op("deliverq", 1 - victim));
                    p.ops.push_back(Op("pump"));
                    v.push_back(p);
                }
            }
        }
    }
    // a second copy of an earlier plaintext handshake record with one of its vectors grown (DTLS: a HelloVerifyRequest retransmission with a
    // longer cookie, ...), injected at every parking point
    for (int ver = 0; ver < 5; ver++) {
        for (int park = 1; park <= (ver >= 3 ? 7 : 4); park++) {
            for (int dir = 0; dir < 2; dir++) {
                for (int which = 0; which < 3; which++) {
                    for (int cand = 0; cand < (tier ? 10 : 4); cand++) {
                        Plan p; p.seed = 81000 + (uint64_t) ((((ver * 8 + park) * 2 + dir) * 3 + which) * 10 + cand);
                        p.cfg["ver"] = ver;
                        if (ver == 2) { p.cfg["suite"] = TLS_AES_128_GCM_SHA256; p.cfg["sid_kind"] = KK_EC256; } else { p.cfg["suite"] = TLS_ECDHE_RSA_WITH_AES_128_CBC_SHA; }
                        p.ops.push_back(Op("steps", park));
                        p.ops.push_back(Op("inject", dir, which, cand * 3, cand, "regrow"));
                        p.ops.push_back(Op("hs"));
                        v.push_back(p);
                    }
                }
            }
        }
    }
    // a CCS record with a partial / lying handshake record header behind it, at every parking point and after completion (before any application data)
    for (int ver = 0; ver < 5; ver++) {
        for (int park = 0; park <= 9; park++) {
            for (int dir = 0; dir < 2; dir++) {
                for (int var = 0; var < 6; var++) {
                    for (int ep = 0; ep < (ver >= 3 ? 3 : 1); ep++) {
                        Plan p; p.seed = 83000 + (uint64_t) ((((ver * 10 + park) * 2 + dir) * 6 + var) * 3 + ep);
                        p.cfg["ver"] = ver;
                        if (ver == 2) { p.cfg["suite"] = TLS_AES_128_GCM_SHA256; p.cfg["sid_kind"] = KK_EC256; } else { p.cfg["suite"] = TLS_RSA_WITH_AES_128_CBC_SHA; }
                        if (park < 9) { p.ops.push_back(Op("steps", park)); } else { p.ops.push_back(Op("hs")); }
                        p.ops.push_back(Op("inject", dir, var, 0, ep, "ccs_tail"));
                        p.ops.push_back(Op("hs")); p.ops.push_back(Op("send", dir, 20)); p.ops.push_back(Op("pump"));
                        v.push_back(p);
                    }
                }
            }
        }
    }
    // every length-prefixed vector inside every plaintext handshake message (client authentication on, so CertificateRequest and the client's
    // Certificate / CertificateVerify exist) made longer than any honest peer makes it: by a few items and by thousands
    for (int ver = 0; ver < 5; ver++) {
        for (int park = 0; park <= (ver == 2 ? 1 : 5); park++) {
            for (int dir = 0; dir < 2; dir++) {
                for (int cand = 0; cand < (tier ? 40 : 14); cand++) {
                    for (int big = 0; big < 2; big++) {
                        Plan p; p.seed = 84000 + (uint64_t) ((((ver * 10 + park) * 2 + dir) * 40 + cand) * 2 + big);
                        p.cfg["ver"] = ver; p.cfg["cauth"] = KK_RSA2048;
                        if (ver == 2) { p.cfg["suite"] = TLS_AES_128_GCM_SHA256; p.cfg["sid_kind"] = KK_EC256; }
                        else { p.cfg["suite"] = (cand & 1) ? TLS_ECDHE_RSA_WITH_AES_128_CBC_SHA : TLS_RSA_WITH_AES_128_CBC_SHA; }
                        // park = how many honest records of that direction pass first (flights are emitted record by record in one go)
                        p.ops.push_back(Op("arm", dir, big ? 4 * (1500 + cand * 150) : 4 * (10 + cand) + 1, cand, park, "vecgrow"));
                        p.ops.push_back(Op("hs"));
                        v.push_back(p);
                    }
                }
            }
        }
    }
    // every plaintext handshake message of each direction grown / shrunk consistently (all enclosing length fields adjusted), on a first
    // connection and on a second connection over the same session id after the server's ticket key was rotated (ticket re-issue)
    for (int ver = 0; ver < 5; ver++) {
        for (int mode = 0; mode < (ver < 2 ? 3 : 1); mode++) {     // 0 fresh, 1 tickets+resume, 2 tickets+resume+rotate
            for (int park = 0; park <= (tier ? 12 : 9); park++) {
                for (int dir = 0; dir < 2; dir++) {
                    for (int n = 0; n < (tier ? 4 : 2); n++) {
                        static const int NS[] = { 64, 7, 199, 1 };
                        Plan p; p.seed = 85000 + (uint64_t) (ver * 10000 + mode * 2000 + park * 100 + dir * 10 + n);
                        p.cfg["ver"] = ver;
                        if (ver == 2) { p.cfg["suite"] = TLS_AES_128_GCM_SHA256; p.cfg["sid_kind"] = KK_EC256; }
                        else { p.cfg["suite"] = (park & 1) ? TLS_ECDHE_RSA_WITH_AES_128_CBC_SHA : TLS_RSA_WITH_AES_128_CBC_SHA; }
                        if (mode >= 1) { p.cfg["tickets"] = 1; p.cfg["resume"] = 1; }
                        if (mode == 2) { p.cfg["rotate"] = 1; }
                        if (park) { p.ops.push_back(Op("steps", park)); }
                        p.ops.push_back(Op("arm", dir, NS[n] - 1, n == 1 ? 3 : 0, 0, (n == 3 && park % 3 == 0) ? "shrink" : "grow"));
                        p.ops.push_back(Op("hs"));
                        v.push_back(p);
                    }
                }
            }
        }
    }
    // every extension of the ClientHello duplicated in turn (second copy intact, cut short, altered, emptied), clients that send server_name / ALPN included
    for (int ver = 0; ver < 5; ver++) {
        for (int which = 0; which < (tier ? 14 : 10); which++) {
            for (int vi = 0; vi < 8; vi++) {
                int var = vi < 6 ? vi : vi == 6 ? 18 : 42;       // 18 / 42: the intact copy inserted 4 / 8 times
                if (!tier && ver >= 3 && var % 2) { continue; }
                if (vi >= 6 && ver >= 3) { continue; }
                Plan p; p.seed = 79500 + (uint64_t) ((ver * 14 + which) * 6 + vi) + (vi >= 6 ? 7000 : 0);
                p.cfg["ver"] = ver; p.cfg["sni"] = 2; p.scfg["expected_name"] = "localhost";
                if (ver == 2) { p.cfg["suite"] = TLS_AES_128_GCM_SHA256; p.cfg["sid_kind"] = KK_EC256; } else { p.cfg["suite"] = TLS_ECDHE_RSA_WITH_AES_128_CBC_SHA; }
                if (ver >= 3) { p.cfg["pmtu"] = 1500; }
                p.ops.push_back(Op("arm", DIR_C2S, which, var, 0, "dupext"));
                p.ops.push_back(Op("hs"));
                v.push_back(p);
            }
        }
    }
    // two-element certificate chains (leaf + issuer): the first element parses, the second is edited at its outer TLVs
    for (int ver = 0; ver < 2; ver++) {
        for (int kind = 0; kind < 2; kind++) {
            struct vsim_keymat m; if (!vsim_keymat(kind ? KK_EC256 : KK_RSA2048, &m)) { continue; }
            for (int off = 0; off < (tier ? 40 : 16); off++) {
                for (int val = 0; val < 2; val++) {
                    Plan p; p.seed = 79000 + (uint64_t) (((ver * 2 + kind) * 40 + off) * 2 + val);
                    p.cfg["ver"] = ver; p.cfg["suite"] = kind ? TLS_ECDHE_ECDSA_WITH_AES_128_CBC_SHA : TLS_ECDHE_RSA_WITH_AES_128_CBC_SHA; p.cfg["chain"] = 1;
                    // record body: handshake header (4), certificate_list length (3), first entry length (3) + certificate, second entry length (3), second certificate
                    p.ops.push_back(Op("arm", DIR_S2C, (int64_t) (4 + 3 + 3 + m.certLen + 3 + (size_t) off), val ? 5 : 0, 1, "setbyte"));
                    p.ops.push_back(Op("hs"));
                    v.push_back(p);
                }
            }
        }
    }
    return v;
}

static bool rc_documented(const char *api, int rc) {
    if (rc < 0) { return rc >= -200; }   // PS_* / MATRIXSSL_* error space (core: -1..-99, crypto/ssl: -100..-199)
    if (!strcmp(api, "ReceivedData") || !strcmp(api, "ProcessedData")) { return rc <= MATRIXSSL_APP_DATA_COMPRESSED; }
    if (!strcmp(api, "SentData")) { return rc == MATRIXSSL_SUCCESS || rc == MATRIXSSL_REQUEST_SEND || rc == MATRIXSSL_REQUEST_CLOSE || rc == MATRIXSSL_HANDSHAKE_COMPLETE; }
    if (!strcmp(api, "EncodeClosureAlert")) { return rc == MATRIXSSL_SUCCESS; }
    return true;
}

static RunResult c08_exec(const Plan &p) {
    RunResult res;
    vsim_run_reset(p.seed);
    (void) ubsan_take_reports();
    sim_global_open();
    vsim_alloc_mark();
    int max_in = 0, max_out = 0;
    bool setup_failed = false;
    {
        ProtoRun pr(p);
        auto hook = [&](MxEndpoint &e, const char *) {
            if (!e.ssl) { return; }
            int a = vsim_peek_insize(e.ssl), b = vsim_peek_outsize(e.ssl);
            if (a > max_in) { max_in = a; }
            if (b > max_out) { max_out = b; }
        };
        pr.on_api = hook;
        pr.run();
        if (pr.setup_failed) { res.harness_error = true; res.detail = pr.setup_detail + " cfg=" + cfg_label(p); setup_failed = true; }
        else {
            ProtoObs &o = pr.obs;
            std::string ver = ver_name(pr.pc.version);
            for (int role = 0; role < 2 && !res.violation; role++) {
                MxEndpoint &e = role ? *pr.w.srv : *pr.w.cli;
                for (auto &ev : e.events) {
                    if (!rc_documented(ev.api, ev.rc)) {
                        res.violate("undocumented_return", std::string(ev.api) + "=" + std::to_string(ev.rc), std::string(role ? "server " : "client ") + ev.api + " returned " + std::to_string(ev.rc) + ", which is not a documented status");
                        break;
                    }
                }
            }
            res.nontrivial = o.tampered[0] || o.tampered[1] || o.fault_fired[0] || o.fault_fired[1] || vsim_pt_mutated() > 0;
            res.fingerprint = pr.fingerprint();
            for (auto &kv : o.counters) { res.counters[kv.first] += kv.second; }
            if (vsim_pt_mutated()) { res.count("fault.ptmut_fired", (int64_t) vsim_pt_mutated()); }
            res.states = o.states;
            res.count(std::string("hs_completed.") + (o.hs_done ? "yes" : "no"));
        }
    }
    if (!setup_failed) {
        size_t maxreq = vsim_alloc_max_request(), peak = vsim_alloc_peak_bytes();
        res.count("alloc.max_request_kib." + std::to_string(maxreq >> 14 << 4));
        res.count("alloc.peak_mib." + std::to_string(peak >> 20));
        res.count("buf.max_insize_kib." + std::to_string(max_in >> 14 << 4));
        res.count("buf.max_outsize_kib." + std::to_string(max_out >> 14 << 4));
        std::vector<std::string> ub = ubsan_take_reports();
        if (!res.violation && !ub.empty()) {
            std::string all; for (auto &s : ub) { all += s + " "; }
            res.violate("ubsan", ub[0], "UndefinedBehaviorSanitizer report(s) during the run: " + all);
        }
        if (!res.violation && maxreq > (1u << 20)) {
            res.violate("alloc_request_too_large", ver_name(paircfg_from_plan(p).version), "a single allocation of " + std::to_string(maxreq) + " bytes was requested (bound 1 MiB)");
        }
        if (!res.violation && peak > (8u << 20)) {
            res.violate("alloc_live_too_large", ver_name(paircfg_from_plan(p).version), "live library bytes peaked at " + std::to_string(peak) + " for one client/server pair and its keys (bound 2 x 4 MiB)");
        }
        if (!res.violation && (max_in > 0x10000 + 2048 || max_out > 0x14000)) {
            res.violate("io_buffer_beyond_max", std::string(max_in > 0x10800 ? "inbuf" : "outbuf"), "session I/O buffer grew to insize=" + std::to_string(max_in) + " outsize=" + std::to_string(max_out) + " (SSL_MAX_BUF_SIZE is 65535)");
        }
        size_t live = vsim_alloc_live_blocks();
        if (!res.violation && live > 0) {
            vsim_block_info_t bi[8]; int n = vsim_alloc_live_list(bi, 8);
            char owner[128] = "?"; if (n) { vsim_block_owner(&bi[0], owner, sizeof owner); }
            std::string all; for (int i = 0; i < n; i++) { char ow[128]; vsim_block_owner(&bi[i], ow, sizeof ow); all += std::string(ow) + "/" + std::string(bi[i].func ? bi[i].func : "?") + ":" + std::to_string(bi[i].line) + "(" + std::to_string(bi[i].size) + "B) "; }
            res.violate("leak_after_delete", owner, std::to_string(live) + " library block(s) still allocated after sessions, keys and session ids were deleted: " + all);
        }
        if (vsim_alloc_unknown_frees()) { res.count("alloc.unknown_frees", (int64_t) vsim_alloc_unknown_frees()); }
    }
    sim_global_close();
    return res;
}

static ModuleRegistrar reg({ "C08", "proto", "exploration",
    "seeded plans: swarm cfg (TLS 1.1/1.2/1.3, DTLS 1.0/1.2 x suite x auth x resumption x PMTU x stream re-chunking) x park after k records x 1-5 adversary edits "
    "(bit flip; boundary value or +-1 in a 1/2/3-byte field at any offset; handshake length / DTLS msg_seq / fragment offset / fragment length; record length, type, version, "
    "epoch, sequence; truncate; extend; re-fragment a handshake record; dup; drop; swap; forged plaintext / garbage / replayed / reflected / cross-session / relabelled records) "
    "plus a byzantine peer that edits the plaintext of an AEAD-sealed message before sealing (post-decryption parsers), in handshake and connected states; fixed aimed plans: "
    "every handshake-header field x every early record x version. Oracles: ASan/UBSan clean, API returns within the watchdog with a documented status, no allocation > 1 MiB, "
    "live bytes <= 8 MiB per pair, I/O buffers <= SSL_MAX_BUF_SIZE, zero live blocks after delete. non-trivial = an edit reached a live receiver; distinct = distinct history fingerprint",
    c08_gen, c08_exec, 8000, 300000, 75, 1800,
    { "core", "crypto", "matrixssl (client and server sessions, all parsers reachable from the wire)" },
    { "transport", "attacker / byzantine plaintext editor", "applications", "clock", "entropy", "allocator front-end (tracks, poisons, always moves on realloc)" },
    { "inputs are mutations of live transcripts, not coverage-guided: the property is sampled, not proven",
      "uninitialised reads are only visible to the valgrind sample (thorough), not to ASan" },
    "asan", c08_fixed, false });
