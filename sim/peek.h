/* see peek.c */
#ifndef VSIM_PEEK_H
#define VSIM_PEEK_H
#include <stddef.h>
#include <stdint.h>
#ifdef __cplusplus
extern "C" {
#endif
struct ssl; struct sslKeys; struct sslSessionId;
int vsim_peek_hs_state(const struct ssl *ssl);
uint32_t vsim_peek_flags(const struct ssl *ssl);
uint32_t vsim_peek_bflags(const struct ssl *ssl);
void *vsim_peek_userptr(const struct ssl *ssl);
size_t vsim_sizeof_ssl(void);
int vsim_peek_outlen(const struct ssl *ssl);
int vsim_peek_inlen(const struct ssl *ssl);
int vsim_peek_insize(const struct ssl *ssl);
int vsim_peek_tls13_group(const struct ssl *ssl);
int vsim_peek_outsize(const struct ssl *ssl);
const void *vsim_peek_outbuf(const struct ssl *ssl);
int vsim_peek_err(const struct ssl *ssl);
int vsim_peek_dtls_flight_done(const struct ssl *ssl);
int vsim_peek_dtls_appdata_exch(const struct ssl *ssl);
int vsim_peek_session_id(const struct ssl *ssl, unsigned char *out, int max);
int vsim_peek_master_secret_digest(const struct ssl *ssl, unsigned long long *out);
int vsim_peek_ems(const struct ssl *ssl);
int vsim_peek_master_secret(const struct ssl *ssl, unsigned char out[48]);
int vsim_load_tls13_psk(struct sslKeys *keys, const unsigned char *key, int keyLen, const unsigned char *id, int idLen,
    int maxEarly, int cipherId);
int vsim_sid_info(const struct sslSessionId *sid, int *idLen, int *ticketLen, int *hasPsk, unsigned int *cipherId);
unsigned char *vsim_sid_id_bytes(struct sslSessionId *sid);
void vsim_sid_set_idlen(struct sslSessionId *sid, int n);
unsigned char *vsim_sid_master(struct sslSessionId *sid);
void vsim_sid_set_cipher(struct sslSessionId *sid, unsigned int cipherId);
unsigned char *vsim_sid_ticket(struct sslSessionId *sid, int *len);
void vsim_sid_set_ticket_len(struct sslSessionId *sid, int n);
unsigned char *vsim_sid_psk_id(struct sslSessionId *sid, int *len);
unsigned char *vsim_sid_psk_key(struct sslSessionId *sid, int *len);
int vsim_encode_hello_request(ssl_t *ssl);
void vsim_poke_tls13_using_psk(ssl_t *ssl);
#ifdef __cplusplus
}
#endif
#endif
