// OpenSSL peer for C10 (see ossl.h)
#define OPENSSL_SUPPRESS_DEPRECATED 1
#include "ossl.h"
#include "keys.h"
#include "seams.h"
#include <openssl/ssl.h>
#include <openssl/err.h>
#include <openssl/rand.h>
#include <openssl/x509.h>
#include <openssl/evp.h>
#include <cstring>
#include <map>

// ------------------------------------------------------------------ deterministic randomness
static uint64_t g_rand_state = 0x1234;
static int r_bytes(unsigned char *buf, int num) {
    for (int i = 0; i < num;) {
        uint64_t z = (g_rand_state += 0x9e3779b97f4a7c15ULL);
        z = (z ^ (z >> 30)) * 0xbf58476d1ce4e5b9ULL; z = (z ^ (z >> 27)) * 0x94d049bb133111ebULL; z ^= z >> 31;
        for (int k = 0; k < 8 && i < num; k++, i++) { buf[i] = (unsigned char) (z >> (8 * k)); }
    }
    return 1;
}
static int r_status(void) { return 1; }
static int r_seed(const void *, int) { return 1; }
static int r_add(const void *, int, double) { return 1; }
static RAND_METHOD g_rand_method = { r_seed, r_bytes, nullptr, r_add, r_bytes, r_status };
static bool g_init = false;
void ossl_global_init() {
    if (g_init) { return; }
    g_init = true;
    OPENSSL_init_ssl(OPENSSL_INIT_NO_ATEXIT, nullptr);
    RAND_set_rand_method(&g_rand_method);
}
void ossl_seed(uint64_t seed) { ossl_global_init(); g_rand_state = seed * 0x9e3779b97f4a7c15ULL + 0x5151; ERR_clear_error(); }

// ------------------------------------------------------------------ shared context
struct OsslShared {
    SSL_CTX *ctx = nullptr;
    SSL_SESSION *saved = nullptr;     // client: most recent session / ticket
    int new_sessions = 0;
    OsslCfg cfg;
};
static int g_shared_idx = -1, g_ep_idx = -1;

static int new_session_cb(SSL *ssl, SSL_SESSION *sess) {
    OsslShared *sh = (OsslShared *) SSL_CTX_get_ex_data(SSL_get_SSL_CTX(ssl), g_shared_idx);
    if (!sh) { return 0; }
    if (sh->saved) { SSL_SESSION_free(sh->saved); }
    sh->saved = sess; sh->new_sessions++;
    return 1;   // we keep the reference
}
static void info_cb(const SSL *ssl, int where, int ret) {
    OsslEndpoint *ep = (OsslEndpoint *) SSL_get_ex_data(ssl, g_ep_idx);
    if (!ep) { return; }
    if (where & SSL_CB_ALERT) {
        if (where & SSL_CB_READ) { ep->alert_received = ret & 0xff; if ((ret & 0xff) == 0) { ep->got_close_notify = true; } }
        else { ep->alert_sent = ret & 0xff; }
    }
}

static bool add_identity(SSL_CTX *ctx, int kind, std::string *err) {
    struct vsim_keymat m;
    if (!vsim_keymat(kind, &m)) { if (err) { *err = "no key material"; } return false; }
    const unsigned char *p = m.cert, *end = m.cert + m.certLen; bool first = true;
    while (p < end) {
        X509 *x = d2i_X509(nullptr, &p, (long) (end - p));
        if (!x) { break; }
        if (first) { if (SSL_CTX_use_certificate(ctx, x) != 1) { X509_free(x); if (err) { *err = "use_certificate"; } return false; } X509_free(x); first = false; }
        else { SSL_CTX_add_extra_chain_cert(ctx, x); }
    }
    if (first) { if (err) { *err = "certificate does not parse"; } return false; }
    const unsigned char *k = m.key;
    EVP_PKEY *pk = d2i_AutoPrivateKey(nullptr, &k, (long) m.keyLen);
    if (!pk) { if (err) { *err = "private key does not parse"; } return false; }
    int ok = SSL_CTX_use_PrivateKey(ctx, pk); EVP_PKEY_free(pk);
    if (ok != 1 || SSL_CTX_check_private_key(ctx) != 1) { if (err) { *err = "key/cert mismatch"; } return false; }
    return true;
}
static void add_cas(SSL_CTX *ctx, unsigned mask) {
    X509_STORE *st = SSL_CTX_get_cert_store(ctx);
    for (int k = 1; k <= 9; k++) {
        if (!(mask & (1u << k))) { continue; }
        struct vsim_keymat m; if (!vsim_keymat(k, &m)) { continue; }
        const unsigned char *p = m.ca, *end = m.ca + m.caLen;
        while (p < end) { X509 *x = d2i_X509(nullptr, &p, (long) (end - p)); if (!x) { break; } X509_STORE_add_cert(st, x); if (m.ca) { SSL_CTX_add_client_CA(ctx, x); } X509_free(x); }
    }
}

OsslShared *ossl_shared_new(const OsslCfg &cfg, std::string *err) {
    ossl_global_init();
    if (g_shared_idx < 0) { g_shared_idx = SSL_CTX_get_ex_new_index(0, nullptr, nullptr, nullptr, nullptr); g_ep_idx = SSL_get_ex_new_index(0, nullptr, nullptr, nullptr, nullptr); }
    OsslShared *sh = new OsslShared(); sh->cfg = cfg;
    const SSL_METHOD *meth = cfg.dtls ? (cfg.server ? DTLS_server_method() : DTLS_client_method()) : (cfg.server ? TLS_server_method() : TLS_client_method());
    SSL_CTX *ctx = SSL_CTX_new(meth);
    if (!ctx) { if (err) { *err = "SSL_CTX_new"; } delete sh; return nullptr; }
    sh->ctx = ctx;
    SSL_CTX_set_ex_data(ctx, g_shared_idx, sh);
    SSL_CTX_set_security_level(ctx, 0);
    if (cfg.min_ver) { SSL_CTX_set_min_proto_version(ctx, cfg.min_ver); }
    if (cfg.max_ver) { SSL_CTX_set_max_proto_version(ctx, cfg.max_ver); }
    std::string cl = cfg.cipher_list.empty() ? "ALL:COMPLEMENTOFALL" : cfg.cipher_list;
    if (SSL_CTX_set_cipher_list(ctx, (cl + ":@SECLEVEL=0").c_str()) != 1) { if (err) { *err = "cipher list " + cl; } ossl_shared_free(sh); return nullptr; }
    if (!cfg.suites13.empty() && SSL_CTX_set_ciphersuites(ctx, cfg.suites13.c_str()) != 1) { if (err) { *err = "ciphersuites " + cfg.suites13; } ossl_shared_free(sh); return nullptr; }
    if (!cfg.groups.empty() && SSL_CTX_set1_groups_list(ctx, cfg.groups.c_str()) != 1) { if (err) { *err = "groups " + cfg.groups; } ossl_shared_free(sh); return nullptr; }
    if (!cfg.sigalgs.empty() && SSL_CTX_set1_sigalgs_list(ctx, cfg.sigalgs.c_str()) != 1) { if (err) { *err = "sigalgs " + cfg.sigalgs; } ossl_shared_free(sh); return nullptr; }
    if (cfg.identity && !add_identity(ctx, cfg.identity, err)) { ossl_shared_free(sh); return nullptr; }
    add_cas(ctx, cfg.ca_mask);
    uint64_t opts = SSL_OP_NO_COMPRESSION | SSL_OP_LEGACY_SERVER_CONNECT | SSL_OP_ALLOW_UNSAFE_LEGACY_RENEGOTIATION;
    if (!cfg.tickets) { opts |= SSL_OP_NO_TICKET; }
    if (!cfg.ems) { opts |= SSL_OP_NO_EXTENDED_MASTER_SECRET; }
    SSL_CTX_set_options(ctx, opts);
    SSL_CTX_set_mode(ctx, SSL_MODE_NO_AUTO_CHAIN);   // send exactly the configured chain (the trust store also holds CAs for the peer's certificates, some sharing a subject name and key with ours)
    SSL_CTX_set_info_callback(ctx, info_cb);
    if (cfg.server) {
        static const unsigned char sidctx[] = "vsim-c10";
        SSL_CTX_set_session_id_context(ctx, sidctx, sizeof sidctx - 1);
        SSL_CTX_set_session_cache_mode(ctx, SSL_SESS_CACHE_SERVER);
        SSL_CTX_set_num_tickets(ctx, (size_t) cfg.num_tickets);
        if (cfg.max_early > 0) { SSL_CTX_set_max_early_data(ctx, (uint32_t) cfg.max_early); SSL_CTX_set_recv_max_early_data(ctx, (uint32_t) cfg.max_early); }
        SSL_CTX_set_dh_auto(ctx, 1);
        if (cfg.request_client_cert) { SSL_CTX_set_verify(ctx, SSL_VERIFY_PEER | SSL_VERIFY_FAIL_IF_NO_PEER_CERT, nullptr); }
    } else {
        SSL_CTX_set_session_cache_mode(ctx, SSL_SESS_CACHE_CLIENT | SSL_SESS_CACHE_NO_INTERNAL_STORE);
        SSL_CTX_sess_set_new_cb(ctx, new_session_cb);
        SSL_CTX_set_verify(ctx, cfg.ca_mask ? SSL_VERIFY_PEER : SSL_VERIFY_NONE, nullptr);
    }
    return sh;
}
void ossl_shared_free(OsslShared *sh) {
    if (!sh) { return; }
    if (sh->saved) { SSL_SESSION_free(sh->saved); }
    if (sh->ctx) { SSL_CTX_free(sh->ctx); }
    delete sh;
}

// ------------------------------------------------------------------ endpoint
#define S ((SSL *) ssl_)
OsslEndpoint::~OsslEndpoint() { if (ssl_) { SSL_free(S); ssl_ = nullptr; } }

bool OsslEndpoint::create(OsslShared *sh, bool resume) {
    sh_ = sh; cfg = sh->cfg;
    SSL *ssl = SSL_new(sh->ctx);
    if (!ssl) { failed = true; fail_reason = "SSL_new"; return false; }
    ssl_ = ssl;
    SSL_set_ex_data(ssl, g_ep_idx, this);
    BIO *r = BIO_new(BIO_s_mem()), *w = BIO_new(BIO_s_mem());
    BIO_set_mem_eof_return(r, -1); BIO_set_mem_eof_return(w, -1);
    SSL_set_bio(ssl, r, w); rbio_ = r; wbio_ = w;
    if (cfg.dtls) {
        // memory BIOs carry no path MTU: tell the library one, and never let it wait on a timer (the simulated link is lossless)
        SSL_set_options(ssl, SSL_OP_NO_QUERY_MTU);
        SSL_set_mtu(ssl, 1400);
    }
    if (cfg.server) { SSL_set_accept_state(ssl); }
    else {
        SSL_set_connect_state(ssl);
        if (resume && sh->saved) { SSL_set_session(ssl, sh->saved); fp.add(1); }
        if (resume && sh->saved && !early_payload.empty() && SSL_SESSION_get_max_early_data(sh->saved) > 0) {
            size_t written = 0; ERR_clear_error();
            early_write_rc = SSL_write_early_data(ssl, early_payload.data(), early_payload.size(), &written);   // ClientHello + 0-RTT record
            fp.add(0xe0 + (uint64_t) (early_write_rc == 1));
        }
        drive();     // emits the ClientHello (or continues after the early data)
    }
    return true;
}

void OsslEndpoint::drive() {
    if (!ssl_ || failed) { return; }
    if (!complete && cfg.server && cfg.max_early > 0 && !early_read_done_) {
        // a server that accepts 0-RTT has to read it (or learn there is none) before it may continue the handshake
        for (int guard = 0; guard < 64; guard++) {
            unsigned char buf[17000]; size_t n = 0; ERR_clear_error();
            int r = SSL_read_early_data(S, buf, sizeof buf, &n);
            if (r == SSL_READ_EARLY_DATA_SUCCESS) { early_delivered.push_back(Bytes(buf, buf + n)); fp.add(hash_bytes(buf, n)); continue; }
            if (r == SSL_READ_EARLY_DATA_FINISH) { early_read_done_ = true; break; }
            int e = SSL_get_error(S, 0);
            if (e == SSL_ERROR_WANT_READ || e == SSL_ERROR_WANT_WRITE) { return; }
            failed = true; unsigned long ec = ERR_peek_last_error(); char eb[256]; ERR_error_string_n(ec, eb, sizeof eb); fail_reason = std::string("early read: ") + eb; fp.add(0xdeaf);
            return;
        }
    }
    if (!complete) {
        ERR_clear_error();
        int r = SSL_do_handshake(S);
        if (r == 1) {
            complete = true; fp.add(0xc0); fp.add((uint64_t) SSL_version(S));
            for (auto &b : pending_writes_) { SSL_write(S, b.data(), (int) b.size()); }
            pending_writes_.clear();
        } else {
            int e = SSL_get_error(S, r);
            if (e != SSL_ERROR_WANT_READ && e != SSL_ERROR_WANT_WRITE) {
                failed = true;
                unsigned long ec = ERR_peek_last_error(); char buf[256]; ERR_error_string_n(ec, buf, sizeof buf);
                fail_reason = std::string("handshake: ") + buf; fp.add(0xdead);
                return;
            }
        }
    }
    if (complete) {
        for (int guard = 0; guard < 64; guard++) {
            unsigned char buf[17000];
            ERR_clear_error();
            int n = SSL_read(S, buf, (int) sizeof buf);
            if (n > 0) { delivered.push_back(Bytes(buf, buf + n)); fp.add(hash_bytes(buf, (size_t) n)); continue; }
            int e = SSL_get_error(S, n);
            if (e == SSL_ERROR_WANT_READ || e == SSL_ERROR_WANT_WRITE) { break; }
            if (e == SSL_ERROR_ZERO_RETURN) { got_close_notify = true; break; }
            failed = true; unsigned long ec = ERR_peek_last_error(); char eb[256]; ERR_error_string_n(ec, eb, sizeof eb);
            fail_reason = std::string("read: ") + eb; fp.add(0xdeae);
            break;
        }
    }
}

int OsslEndpoint::feed(const unsigned char *p, size_t n) {
    if (!ssl_) { return -1; }
    BIO_write((BIO *) rbio_, p, (int) n);
    drive();
    return failed ? -1 : 0;
}
size_t OsslEndpoint::pending_out() { return ssl_ ? (size_t) BIO_ctrl_pending((BIO *) wbio_) : 0; }
Bytes OsslEndpoint::pull(size_t max) {
    Bytes out; if (!ssl_) { return out; }
    size_t avail = pending_out(); if (avail > max) { avail = max; }
    out.resize(avail);
    if (avail) { int n = BIO_read((BIO *) wbio_, out.data(), (int) avail); out.resize(n > 0 ? (size_t) n : 0); }
    return out;
}
int OsslEndpoint::app_send(const unsigned char *p, size_t n) {
    if (!ssl_ || failed) { return -1; }
    if (!complete) { pending_writes_.push_back(Bytes(p, p + n)); return (int) n; }
    ERR_clear_error();
    int r = SSL_write(S, p, (int) n);
    if (r <= 0) { failed = true; fail_reason = "SSL_write failed"; return -1; }
    return r;
}
int OsslEndpoint::app_close() { if (!ssl_) { return -1; } ERR_clear_error(); return SSL_shutdown(S); }
int OsslEndpoint::early_status() { return ssl_ ? SSL_get_early_data_status(S) : 0; }
bool OsslEndpoint::is_resumed() { return ssl_ && SSL_session_reused(S) == 1; }
int OsslEndpoint::negotiated_version() { return ssl_ ? SSL_version(S) : 0; }
std::string OsslEndpoint::negotiated_cipher() { const SSL_CIPHER *c = ssl_ ? SSL_get_current_cipher(S) : nullptr; return c ? SSL_CIPHER_get_name(c) : ""; }
std::string OsslEndpoint::negotiated_group() {
    if (!ssl_) { return ""; }
    int nid = (int) SSL_get_negotiated_group(S);
    if (nid <= 0) { return ""; }
    const char *n = SSL_group_to_name(S, nid);
    return n ? n : "";
}

const char *ossl_cipher_name_for_id(uint16_t id) {
    static std::map<uint16_t, std::string> cache;
    auto it = cache.find(id);
    if (it != cache.end()) { return it->second.c_str(); }
    ossl_global_init();
    uint64_t saved_rand = g_rand_state;      // a lookup (done once per process and suite) must not shift the run's random stream
    SSL_CTX *ctx = SSL_CTX_new(TLS_method()); SSL *ssl = ctx ? SSL_new(ctx) : nullptr;
    std::string name;
    if (ssl) { unsigned char b[2] = { (unsigned char) (id >> 8), (unsigned char) id }; const SSL_CIPHER *c = SSL_CIPHER_find(ssl, b); if (c) { name = SSL_CIPHER_get_name(c); } }
    if (ssl) { SSL_free(ssl); } if (ctx) { SSL_CTX_free(ctx); }
    g_rand_state = saved_rand;
    cache[id] = name;
    return cache[id].c_str();
}

#include <openssl/pem.h>
bool ossl_make_crl(int kind, bool revoke_leaf, Bytes &der, std::string *err) {
    ossl_global_init();
    struct vsim_keymat m;
    if (!vsim_keymat(kind, &m)) { if (err) { *err = "no key material"; } return false; }
    const char *repo = getenv("VSIM_REPO"); std::string root = repo ? repo : "/repo";
    std::string keyfile = root + (kind == 2 ? "/testkeys/EC/256_EC_CA_KEY.pem" : kind == 3 ? "/testkeys/EC/384_EC_CA_KEY.pem" : "/testkeys/RSA/2048_RSA_CA_KEY.pem");
    BIO *b = BIO_new_file(keyfile.c_str(), "r");
    if (!b) { if (err) { *err = "cannot open " + keyfile; } return false; }
    EVP_PKEY *cakey = PEM_read_bio_PrivateKey(b, nullptr, nullptr, nullptr); BIO_free(b);
    if (!cakey) { if (err) { *err = "CA key does not parse"; } return false; }
    const unsigned char *p = m.ca; X509 *ca = d2i_X509(nullptr, &p, (long) m.caLen);
    p = m.cert; X509 *leaf = d2i_X509(nullptr, &p, (long) m.certLen);
    bool ok = false;
    X509_CRL *crl = X509_CRL_new();
    if (ca && leaf && crl) {
        X509_CRL_set_version(crl, 1);
        X509_CRL_set_issuer_name(crl, X509_get_subject_name(ca));
        ASN1_TIME *t0 = ASN1_TIME_set(nullptr, (time_t) vsim_wall_s() - 86400), *t1 = ASN1_TIME_set(nullptr, (time_t) vsim_wall_s() + 90 * 86400);
        X509_CRL_set1_lastUpdate(crl, t0); X509_CRL_set1_nextUpdate(crl, t1);
        if (revoke_leaf) {
            X509_REVOKED *r = X509_REVOKED_new();
            X509_REVOKED_set_serialNumber(r, X509_get_serialNumber(leaf)); X509_REVOKED_set_revocationDate(r, t0);
            X509_CRL_add0_revoked(crl, r);
        }
        ASN1_TIME_free(t0); ASN1_TIME_free(t1);
        X509_CRL_sort(crl);
        if (X509_CRL_sign(crl, cakey, EVP_sha256()) > 0) {
            int n = i2d_X509_CRL(crl, nullptr);
            if (n > 0) { der.resize((size_t) n); unsigned char *o = der.data(); i2d_X509_CRL(crl, &o); ok = true; }
        } else if (err) { *err = "X509_CRL_sign failed"; }
    } else if (err) { *err = "certificate does not parse"; }
    if (crl) { X509_CRL_free(crl); } if (ca) { X509_free(ca); } if (leaf) { X509_free(leaf); }
    EVP_PKEY_free(cakey);
    return ok;
}
