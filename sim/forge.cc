#include "forge.h"
#include <openssl/evp.h>
#include <openssl/kdf.h>
#include <openssl/core_names.h>
#include <openssl/params.h>
#include <cstring>

Bytes forge_sha256(const Bytes &d) { Bytes o(32); unsigned int n = 32; EVP_Digest(d.data(), d.size(), o.data(), &n, EVP_sha256(), nullptr); return o; }

Bytes forge_tls12_prf_sha256(const Bytes &secret, const std::string &label, const Bytes &seed, size_t outlen) {
    Bytes out(outlen);
    EVP_KDF *kdf = EVP_KDF_fetch(nullptr, "TLS1-PRF", nullptr);
    EVP_KDF_CTX *ctx = kdf ? EVP_KDF_CTX_new(kdf) : nullptr;
    if (!ctx) { if (kdf) { EVP_KDF_free(kdf); } return Bytes(); }
    OSSL_PARAM params[5]; int i = 0;
    params[i++] = OSSL_PARAM_construct_utf8_string(OSSL_KDF_PARAM_DIGEST, (char *) "SHA256", 0);
    params[i++] = OSSL_PARAM_construct_octet_string(OSSL_KDF_PARAM_SECRET, (void *) secret.data(), secret.size());
    params[i++] = OSSL_PARAM_construct_octet_string(OSSL_KDF_PARAM_SEED, (void *) label.data(), label.size());
    params[i++] = OSSL_PARAM_construct_octet_string(OSSL_KDF_PARAM_SEED, (void *) seed.data(), seed.size());
    params[i] = OSSL_PARAM_construct_end();
    bool ok = EVP_KDF_derive(ctx, out.data(), out.size(), params) > 0;
    EVP_KDF_CTX_free(ctx); EVP_KDF_free(kdf);
    return ok ? out : Bytes();
}

Bytes forge_gcm_record(uint8_t type, const Bytes &key, const Bytes &iv4, uint64_t seq, const Bytes &pt) {
    unsigned char nonce[12]; memcpy(nonce, iv4.data(), 4); for (int i = 0; i < 8; i++) { nonce[4 + i] = (unsigned char) (seq >> (8 * (7 - i))); }
    unsigned char aad[13]; for (int i = 0; i < 8; i++) { aad[i] = (unsigned char) (seq >> (8 * (7 - i))); }
    aad[8] = type; aad[9] = 3; aad[10] = 3; aad[11] = (unsigned char) (pt.size() >> 8); aad[12] = (unsigned char) pt.size();
    Bytes ct(pt.size()), tag(16);
    EVP_CIPHER_CTX *c = EVP_CIPHER_CTX_new(); int n = 0;
    EVP_EncryptInit_ex(c, EVP_aes_128_gcm(), nullptr, nullptr, nullptr);
    EVP_CIPHER_CTX_ctrl(c, EVP_CTRL_GCM_SET_IVLEN, 12, nullptr);
    EVP_EncryptInit_ex(c, nullptr, nullptr, key.data(), nonce);
    EVP_EncryptUpdate(c, nullptr, &n, aad, 13);
    EVP_EncryptUpdate(c, ct.data(), &n, pt.data(), (int) pt.size());
    EVP_EncryptFinal_ex(c, ct.data() + n, &n);
    EVP_CIPHER_CTX_ctrl(c, EVP_CTRL_GCM_GET_TAG, 16, tag.data());
    EVP_CIPHER_CTX_free(c);
    size_t bl = 8 + ct.size() + 16;
    Bytes rec = { type, 3, 3, (unsigned char) (bl >> 8), (unsigned char) bl };
    rec.insert(rec.end(), nonce + 4, nonce + 12); rec.insert(rec.end(), ct.begin(), ct.end()); rec.insert(rec.end(), tag.begin(), tag.end());
    return rec;
}
