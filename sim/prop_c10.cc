// C10 - wire behaviour conforms to the RFCs: MatrixSSL interoperates with an independent stack (OpenSSL, linked statically, in-process).
// Both stacks run inside the simulator: in-memory transport with benign re-chunking, simulated clock, seeded randomness on both sides.
// Workload: both role assignments x TLS 1.1/1.2/1.3 x every mutually supported suite x server key kind x ECDHE group (incl. HelloRetryRequest)
// x client authentication x resumption (session id, RFC 5077 ticket, TLS 1.3 PSK ticket) x payload lengths across record boundaries.
// Oracle: both ends complete, agree on version/suite, payloads round-trip exactly in both directions, also on the resumed connection; a failure is
// blamed on MatrixSSL only when MatrixSSL<->MatrixSSL and OpenSSL<->OpenSSL both pass the same configuration (otherwise: not mutual / harness).
#include "driver.h"
#include "world.h"
#include "ossl.h"
#include <openssl/ssl.h>

namespace {

const int OVER[] = { TLS1_1_VERSION, TLS1_2_VERSION, TLS1_3_VERSION, DTLS1_VERSION, DTLS1_2_VERSION };
const uint32_t MVER[] = { v_tls_1_1, v_tls_1_2, v_tls_1_3, v_dtls_1_0, v_dtls_1_2 };
// cfg "mrange": the MatrixSSL side enables a version range around `ver` (TLS 1.1+1.2 / DTLS 1.0+1.2) while the peer is pinned to `ver`
static std::vector<uint32_t> mx_versions(const Plan &p, int ver) {
    if (!p.get("mrange") || ver == 2) { return { MVER[ver] }; }
    if (ver >= 3) { return { v_dtls_1_2, v_dtls_1_0 }; }
    return { v_tls_1_2, v_tls_1_1 };
}
const char *VN[] = { "tls1.1", "tls1.2", "tls1.3", "dtls1.0", "dtls1.2" };
struct Grp { uint16_t id; const char *name; };
const Grp GROUPS[] = { { 23, "P-256" }, { 24, "P-384" }, { 25, "P-521" }, { 29, "X25519" }, { 256, "ffdhe2048" }, { 257, "ffdhe3072" } };   // generators use the first four; the ffdhe groups only appear in fixed plans
const size_t PAYLOADS[] = { 1, 2, 15, 16, 17, 255, 256, 1023, 1500, 4096, 16383, 16384, 16385, 20000, 33000 };

struct Conn { int early_status = 0; bool early_delivered = false; bool ok = false, mx_complete = false, os_complete = false, data_ok = false, mx_resumed = false, os_resumed = false; std::string why; int os_alert_sent = -1, os_alert_recv = -1, mx_err = 0; std::string os_cipher, os_group; int os_ver = 0; uint64_t fp = 0; };

struct Interop {
    const Plan &p;
    int role, ver; uint16_t suite; int sid_kind, cauth; int chunk;
    std::vector<uint16_t> groups_m; std::string groups_o; int key_shares;
    bool tickets;
    sslKeys_t *mkeys = nullptr; sslSessionId_t *sid = nullptr; OsslShared *osh = nullptr;
    Rng rng;
    std::map<std::string, int64_t> counters;
    std::string setup_err;
    explicit Interop(const Plan &pl) : p(pl), rng(derive(pl.seed, "interop", 0)) {
        role = (int) p.get("role"); ver = (int) p.get("ver"); suite = (uint16_t) p.get("suite"); sid_kind = (int) p.get("sid_kind", KK_RSA2048); cauth = (int) p.get("cauth", 0);
        chunk = (int) p.get("chunk"); tickets = p.get("tickets") != 0; key_shares = (int) p.get("key_shares", 1);
        for (int i = 1; i <= 3; i++) { int64_t g = p.get("grp_m" + std::to_string(i)); if (g) { groups_m.push_back((uint16_t) g); } }
        for (int i = 1; i <= 3; i++) { int64_t g = p.get("grp_o" + std::to_string(i)); if (g) { for (auto &G : GROUPS) { if (G.id == g) { groups_o += (groups_o.empty() ? "" : ":") + std::string(G.name); } } } }
    }
    ~Interop() {
        vsim_set_node(NODE_HARNESS);
        if (sid) { matrixSslDeleteSessionId(sid); }
        if (mkeys) { matrixSslDeleteKeys(mkeys); }
        if (osh) { ossl_shared_free(osh); }
    }
    bool setup() {
        bool tls13 = ver == 2;
        KeySpec ks;
        if (role == 0) { ks.identity = cauth; ks.ca_mask = 1u << sid_kind; }
        else { ks.identity = sid_kind; if (cauth) { ks.ca_mask = 1u << cauth; } ks.ticket_keys = tickets || tls13; }
        vsim_set_node(role == 0 ? NODE_CLIENT : NODE_SERVER);
        int rc = 0; mkeys = load_keys(ks, &rc);
        if (!mkeys) { setup_err = "matrix key load rc=" + std::to_string(rc); return false; }
        vsim_set_node(NODE_HARNESS);
        if (role == 0 && matrixSslNewSessionId(&sid, nullptr) < 0) { setup_err = "NewSessionId"; return false; }
        OsslCfg oc; oc.server = role == 0; oc.dtls = ver >= 3;
        bool orange = p.get("orange") && !p.get("mrange");
        if (oc.dtls) { oc.min_ver = DTLS1_VERSION; oc.max_ver = orange ? DTLS1_2_VERSION : OVER[ver]; if (!orange) { oc.min_ver = OVER[ver]; } }
        else if (orange) { oc.min_ver = TLS1_1_VERSION; oc.max_ver = TLS1_3_VERSION; } else { oc.min_ver = oc.max_ver = OVER[ver]; }
        std::string cname = ossl_cipher_name_for_id(suite);
        if (cname.empty()) { setup_err = "not_mutual: OpenSSL has no suite " + std::to_string(suite); return false; }
        if (role == 1) { if (tls13) { oc.suites13 = cname; } else { oc.cipher_list = cname; } }
        oc.groups = groups_o;
        if (role == 0) { oc.identity = sid_kind; if (cauth) { oc.ca_mask = 1u << cauth; oc.request_client_cert = true; } }
        else { oc.identity = cauth; oc.ca_mask = 1u << sid_kind; }
        oc.tickets = tickets || tls13;
        if (role == 0 && tls13 && p.get("mearly")) { oc.max_early = 16384; }      // the OpenSSL server accepts 0-RTT data
        if (p.get("noems")) { oc.ems = false; }
        std::string err; osh = ossl_shared_new(oc, &err);
        if (!osh) { setup_err = "openssl ctx: " + err; return false; }
        return true;
    }
    EpCfg mx_cfg() {
        EpCfg c; c.server = role == 1; c.node = role == 1 ? NODE_SERVER : NODE_CLIENT; c.dtls = ver >= 3;
        c.versions = mx_versions(p, ver);
        if (!c.server) { c.suites = { suite }; c.sid = sid; c.ticket_resumption = tickets; }
        c.client_auth = c.server && cauth != 0;
        if (c.server && p.get("oearly")) { c.max_early_data = 16384; }      // the MatrixSSL server accepts 0-RTT data (tickets carry the permission)
        c.groups = groups_m; c.key_shares = c.server ? 0 : key_shares;
        c.cb_policy = CB_STRICT;
        return c;
    }
    // move bytes both ways until nothing moves; benign re-chunking only
    void pump(MxEndpoint &mx, OsslEndpoint &os) {
        if (ver >= 3) { pump_dtls(mx, os); return; }
        for (int guard = 0; guard < 4000; guard++) {
            bool moved = false;
            Bytes a = mx.pull();
            if (!a.empty()) { moved = true; deliver(a, [&](const unsigned char *q, size_t n) { os.feed(q, n); }); }
            Bytes b = os.pull();
            if (!b.empty() && mx.alive()) { moved = true; deliver(b, [&](const unsigned char *q, size_t n) { if (mx.alive()) { mx.feed(q, n); } }); }
            if (!moved) { os.drive(); if (!os.pending_out() && !mx.pending_out()) { break; } }
        }
    }
    // DTLS: MatrixSSL hands out whole datagrams; what OpenSSL wrote is cut at record boundaries, one record per datagram (lossless, in order)
    void pump_dtls(MxEndpoint &mx, OsslEndpoint &os) {
        for (int guard = 0; guard < 400; guard++) {
            bool moved = false;
            // (only while the library asked to send: an unprompted matrixDtlsGetOutdata is the resend-timer call)
            for (int k = 0; k < 64 && mx.alive() && mx.wants_send; k++) { Bytes d = mx.pull(); if (d.empty()) { break; } moved = true; os.feed(d.data(), d.size()); counters["net.datagram"]++; }
            Bytes b = os.pull();
            size_t off = 0;
            while (off + 13 <= b.size() && mx.alive()) {
                size_t n = 13 + ((size_t) b[off + 11] << 8 | b[off + 12]);
                if (off + n > b.size()) { break; }
                mx.feed(b.data() + off, n); off += n; moved = true; counters["net.datagram"]++;
            }
            if (!moved) { os.drive(); if (!os.pending_out() && !mx.wants_send) { break; } }
        }
    }
    template <class F> void deliver(const Bytes &b, F f) {
        if (chunk == 0) { f(b.data(), b.size()); return; }
        size_t off = 0;
        while (off < b.size()) {
            size_t n = chunk == 1 ? 1 : chunk == 2 ? 1 + (size_t) rng.below(64) : 1 + (size_t) rng.below(3000);
            if (n > b.size() - off) { n = b.size() - off; }
            f(b.data() + off, n); off += n; counters["net.chunk"]++;
        }
    }
    Conn connect(bool resume, int idx) {
        Conn c;
        MxEndpoint mx; OsslEndpoint os;
        Bytes early;
        if (role == 1 && resume && ver == 2 && p.get("oearly")) { early = tagged_payload(0, 700 + idx, (size_t) (1 + p.get("oearly") % 1200)); os.early_payload = early; }
        if (role == 1) { if (mx.create(mx_cfg(), mkeys) < 0) { c.why = "matrix server create"; return c; } if (!os.create(osh, resume)) { c.why = "openssl client create"; return c; } }
        else { if (!os.create(osh, resume)) { c.why = "openssl server create"; return c; } if (mx.create(mx_cfg(), mkeys) < 0) { c.why = "matrix client create rc=" + std::to_string(mx.create_rc); return c; } }
        Bytes mearly;
        if (role == 0 && resume && ver == 2 && p.get("mearly")) {
            // the MatrixSSL client writes 0-RTT data if the ticket it holds permits it
            vsim_set_node(mx.node);
            if (matrixSslGetMaxEarlyData(mx.ssl) > 0) {
                mearly = tagged_payload(0, 800 + idx, (size_t) (1 + p.get("mearly") % 1200));
                if (mx.app_send(mearly.data(), mearly.size(), (p.get("mearly") & 1) != 0) < 0) { mearly.clear(); counters["early.matrix_write_refused"]++; }
            }
        }
        pump(mx, os);
        c.mx_complete = mx.alive() && mx.is_complete(); c.os_complete = os.complete && !os.failed;
        c.mx_err = mx.first_error; c.os_alert_sent = os.alert_sent; c.os_alert_recv = os.alert_received;
        if (c.mx_complete && c.os_complete) {
            c.mx_resumed = mx.is_resumed(); c.os_resumed = os.is_resumed();
            c.os_cipher = os.negotiated_cipher(); c.os_group = os.negotiated_group(); c.os_ver = os.negotiated_version();
            // payloads both ways: a few lengths from the boundary set (plan-chosen)
            std::vector<Bytes> to_os, to_mx;
            c.early_status = os.early_status();
            if (!early.empty() && os.early_write_rc == 1) {
                counters[c.early_status == SSL_EARLY_DATA_ACCEPTED ? "early.openssl_0rtt_accepted" : "early.openssl_0rtt_rejected"]++;
                if (c.early_status == SSL_EARLY_DATA_ACCEPTED) { to_mx.push_back(early); }      // the MatrixSSL server must have delivered exactly this, first
            }
            if (!mearly.empty()) {
                Bytes got; for (auto &x : os.early_delivered) { got.insert(got.end(), x.begin(), x.end()); }
                bool accepted = os.early_status() == SSL_EARLY_DATA_ACCEPTED;
                counters[accepted ? "early.matrix_0rtt_accepted" : "early.matrix_0rtt_rejected"]++;
                if (accepted && got != mearly) { c.why = "0-RTT data: OpenSSL accepted early data but read " + std::to_string(got.size()) + " bytes instead of the " + std::to_string(mearly.size()) + " the MatrixSSL client wrote"; }
                if (!accepted && !got.empty()) { c.why = "0-RTT data: OpenSSL says rejected but delivered early bytes"; }
            }
            for (int k = 0; k < 3; k++) {
                size_t la = PAYLOADS[(uint64_t) (p.get("pl") + k * 5 + idx) % (sizeof PAYLOADS / sizeof PAYLOADS[0])], lb = PAYLOADS[(uint64_t) (p.get("pl") / 16 + k * 3 + idx) % (sizeof PAYLOADS / sizeof PAYLOADS[0])];
                if (ver >= 3) { la = 1 + la % 1100; lb = 1 + lb % 1100; }    // one datagram each
                Bytes a = tagged_payload(0, idx * 10 + k, la), b = tagged_payload(1, idx * 10 + k, lb);
                // MatrixSSL sends in <= 16384-byte pieces: the application splits larger payloads itself (documented API behaviour)
                for (size_t off = 0; off < a.size(); off += 16384) { size_t n = a.size() - off < 16384 ? a.size() - off : 16384; if (mx.app_send(a.data() + off, n, (k & 1) != 0) < 0) { c.why = "matrix app_send failed"; } }
                for (size_t off = 0; off < b.size(); off += 16384) { size_t n = b.size() - off < 16384 ? b.size() - off : 16384; if (os.app_send(b.data() + off, n) < 0) { c.why = "openssl write failed"; } }
                to_os.push_back(a); to_mx.push_back(b);
                pump(mx, os);
            }
            Bytes want_os, want_mx, got_os, got_mx;
            for (auto &x : to_os) { want_os.insert(want_os.end(), x.begin(), x.end()); } for (auto &x : to_mx) { want_mx.insert(want_mx.end(), x.begin(), x.end()); }
            for (auto &x : os.delivered) { got_os.insert(got_os.end(), x.begin(), x.end()); } for (auto &x : mx.delivered) { got_mx.insert(got_mx.end(), x.begin(), x.end()); }
            c.data_ok = got_os == want_os && got_mx == want_mx;
            if (!c.data_ok && c.why.empty()) { c.why = "payload mismatch: openssl got " + std::to_string(got_os.size()) + "/" + std::to_string(want_os.size()) + " matrix got " + std::to_string(got_mx.size()) + "/" + std::to_string(want_mx.size()) + (os.failed ? " (" + os.fail_reason + ")" : ""); }
            // orderly closure, client first
            if (role == 0) { mx.app_close(); } else { os.app_close(); }
            pump(mx, os);
            if (role == 0) { os.app_close(); } else if (mx.alive()) { mx.app_close(); }
            pump(mx, os);
            c.ok = c.data_ok;
        } else {
            c.why = std::string("handshake: matrix complete=") + std::to_string(c.mx_complete) + " err=" + std::to_string(mx.first_error) + " alert_in=" + (mx.alerts_in.empty() ? std::string("none") : std::to_string(mx.alerts_in.back().desc)) +
                    "; openssl complete=" + std::to_string(os.complete) + (os.failed ? " failed: " + os.fail_reason : "") + " alert_sent=" + std::to_string(os.alert_sent) + " alert_recv=" + std::to_string(os.alert_received);
        }
        c.fp = mix64(mx.fp.value(), os.fp.value());
        return c;
    }
};

// control 1: the same configuration MatrixSSL <-> MatrixSSL.  0 = passes, 1 = refused at negotiation (a configuration MatrixSSL does not
// support: handshake_failure / protocol_version / insufficient_security / missing_extension), 2 = fails in any other way (MatrixSSL
// malfunctioning even against itself: that does not excuse the failure against the independent peer)
int control_mm(const Plan &p, bool resume) {
    auto refused = [](TlsWorld &w) {
        for (auto *e : { w.cli.get(), w.srv.get() }) { if (!e) { continue; } for (auto &a : e->alerts_in) { if (a.desc == 40 || a.desc == 70 || a.desc == 71 || a.desc == 109) { return true; } } }
        return false;
    };
    PairCfg pc;
    int ver = (int) p.get("ver"); int cauth = (int) p.get("cauth", 0);
    pc.version = MVER[ver]; pc.suites = { (uint16_t) p.get("suite") }; pc.server_identity = (int) p.get("sid_kind", KK_RSA2048);
    if (p.get("mrange") && ver != 2) { pc.version = 0; pc.versions_c = pc.versions_s = { MVER[ver] }; if ((int) p.get("role") == 0) { pc.versions_c = mx_versions(p, ver); } else { pc.versions_s = mx_versions(p, ver); } }
    pc.client_identity = cauth; pc.client_auth = cauth != 0; pc.tickets = p.get("tickets") != 0 || ver == 2; pc.key_shares = (int) p.get("key_shares", 1);
    // groups: the client offers grp_m*, the server supports what OpenSSL was told to support (grp_o*) or everything
    for (int i = 1; i <= 3; i++) { int64_t g = p.get("grp_m" + std::to_string(i)); if (g) { pc.groups_c.push_back((uint16_t) g); } g = p.get("grp_o" + std::to_string(i)); if (g) { pc.groups_s.push_back((uint16_t) g); } }
    if ((int) p.get("role") == 1) { std::swap(pc.groups_c, pc.groups_s); }
    TlsWorld w;
    if (!w.setup(pc)) { return 1; }
    if (!w.connect()) { return 1; }
    if (!w.handshake()) { return refused(w) ? 1 : 2; }
    if (resume) { w.cli->app_close(); w.pump(); if (!w.connect()) { return 1; } if (!w.handshake()) { return refused(w) ? 1 : 2; } }
    return 0;
}
// control 2: OpenSSL <-> OpenSSL
bool control_oo(const Plan &p, bool resume) {
    int ver = (int) p.get("ver"); int sid_kind = (int) p.get("sid_kind", KK_RSA2048), cauth = (int) p.get("cauth", 0);
    std::string cname = ossl_cipher_name_for_id((uint16_t) p.get("suite"));
    OsslCfg s, c; s.server = true; s.min_ver = s.max_ver = c.min_ver = c.max_ver = OVER[ver]; s.dtls = c.dtls = ver >= 3;
    if (ver == 2) { c.suites13 = cname; } else { c.cipher_list = cname; }
    s.identity = sid_kind; c.ca_mask = 1u << sid_kind; c.identity = cauth; if (cauth) { s.ca_mask = 1u << cauth; s.request_client_cert = true; }
    s.tickets = c.tickets = p.get("tickets") != 0 || ver == 2;
    std::string gm, go;
    for (int i = 1; i <= 3; i++) { for (auto &G : GROUPS) { if (G.id == p.get("grp_m" + std::to_string(i))) { gm += (gm.empty() ? "" : ":") + std::string(G.name); } if (G.id == p.get("grp_o" + std::to_string(i))) { go += (go.empty() ? "" : ":") + std::string(G.name); } } }
    if ((int) p.get("role") == 0) { c.groups = gm; s.groups = go; } else { c.groups = go; s.groups = gm; }
    OsslShared *ss = ossl_shared_new(s, nullptr), *cs = ossl_shared_new(c, nullptr);
    bool ok = ss && cs;
    for (int round = 0; ok && round < (resume ? 2 : 1); round++) {
        OsslEndpoint se, ce;
        ok = se.create(ss, false) && ce.create(cs, round == 1);
        auto xfer = [&](OsslEndpoint &from, OsslEndpoint &to) { Bytes a = from.pull(); if (a.empty()) { return false; }
            if (ver < 3) { to.feed(a.data(), a.size()); return true; }
            size_t off = 0; while (off + 13 <= a.size()) { size_t n = 13 + ((size_t) a[off + 11] << 8 | a[off + 12]); if (off + n > a.size()) { break; } to.feed(a.data() + off, n); off += n; } return true; };
        for (int g = 0; ok && g < 200; g++) { bool m1 = xfer(ce, se), m2 = xfer(se, ce); if (!m1 && !m2) { break; } }
        ok = ok && se.complete && ce.complete && !se.failed && !ce.failed;
        if (ok) { unsigned char x[4] = { 1, 2, 3, 4 }; se.app_send(x, 4); xfer(se, ce); ce.app_close(); xfer(ce, se); }
    }
    ossl_shared_free(ss); ossl_shared_free(cs);
    return ok;
}

struct SuiteRow { uint16_t id; int kind; bool min12; };
const SuiteRow ROWS[] = {
    { TLS_RSA_WITH_AES_128_CBC_SHA, KK_RSA2048, false }, { TLS_RSA_WITH_AES_256_CBC_SHA, KK_RSA2048, false }, { TLS_RSA_WITH_AES_128_CBC_SHA256, KK_RSA2048, true }, { TLS_RSA_WITH_AES_256_CBC_SHA256, KK_RSA2048, true },
    { TLS_RSA_WITH_AES_128_GCM_SHA256, KK_RSA2048, true }, { TLS_RSA_WITH_AES_256_GCM_SHA384, KK_RSA2048, true },
    { TLS_ECDHE_RSA_WITH_AES_128_CBC_SHA, KK_RSA2048, false }, { TLS_ECDHE_RSA_WITH_AES_256_CBC_SHA, KK_RSA2048, false }, { TLS_ECDHE_RSA_WITH_AES_128_CBC_SHA256, KK_RSA2048, true }, { TLS_ECDHE_RSA_WITH_AES_256_CBC_SHA384, KK_RSA2048, true },
    { TLS_ECDHE_RSA_WITH_AES_128_GCM_SHA256, KK_RSA2048, true }, { TLS_ECDHE_RSA_WITH_AES_256_GCM_SHA384, KK_RSA2048, true },
    { TLS_ECDHE_ECDSA_WITH_AES_128_CBC_SHA, KK_EC256, false }, { TLS_ECDHE_ECDSA_WITH_AES_256_CBC_SHA, KK_EC256, false }, { TLS_ECDHE_ECDSA_WITH_AES_128_CBC_SHA256, KK_EC256, true }, { TLS_ECDHE_ECDSA_WITH_AES_256_CBC_SHA384, KK_EC256, true },
    { TLS_ECDHE_ECDSA_WITH_AES_128_GCM_SHA256, KK_EC256, true }, { TLS_ECDHE_ECDSA_WITH_AES_256_GCM_SHA384, KK_EC256, true },
};
const uint16_t S13[] = { TLS_AES_128_GCM_SHA256, TLS_AES_256_GCM_SHA384, TLS_CHACHA20_POLY1305_SHA256 };

void base_cfg(Plan &p, int role, int ver, uint16_t suite, int kind) { p.cfg["role"] = role; p.cfg["ver"] = ver; p.cfg["suite"] = suite; p.cfg["sid_kind"] = kind; }

}  // namespace

static Plan c10_gen(uint64_t seed, int tier, uint64_t index) {
    (void) tier; (void) index;
    Rng r(seed);
    Plan p;
    int role = (int) r.below(2), ver = (int) r.below(5);
    if (ver == 2) {
        static const int K13[] = { KK_RSA2048, KK_EC256, KK_EC384, KK_EC521, KK_EC256 };
        base_cfg(p, role, ver, S13[r.below(3)], K13[r.below(5)]);
    } else {
        const SuiteRow *row;
        do { row = &ROWS[r.below(sizeof ROWS / sizeof ROWS[0])]; } while (row->min12 && (ver == 0 || ver == 3));
        int kind = row->kind; if (kind == KK_EC256) { static const int EK[] = { KK_EC256, KK_EC256, KK_EC384, KK_EC521 }; kind = EK[r.below(4)]; }
        base_cfg(p, role, ver, row->id, kind);
        if (r.chance(1, 2) && ver < 3) { p.cfg["tickets"] = 1; }      // DTLS + RFC 5077 tickets stalls inside MatrixSSL itself (DESIGN 16.8): session-id resumption only
        if (r.chance(1, 8)) { p.cfg["noems"] = 1; }
    }
    if (r.chance(1, 3)) { static const int CK[] = { KK_RSA2048, KK_EC256, KK_EC384, KK_EC384_SHA384, KK_EC384_SHA384 }; p.cfg["cauth"] = CK[r.below(5)]; }
    // groups: MatrixSSL side offers 1-3, OpenSSL side default (all) or restricted; a first share the peer refuses gives HelloRetryRequest in TLS 1.3
    // (X25519 only with TLS 1.3: MatrixSSL does not offer it in its TLS <= 1.2 hellos, so it is not a mutually supported TLS <= 1.2 group)
    int ngroups = ver == 2 ? 4 : 3;
    if (ver >= 3) { p.cfg["chunk"] = 0; }
    int ng = 1 + (int) r.below(3); std::vector<int> gi = { 0, 1, 2, 3 };
    for (int i = 0; i < ng; i++) { size_t j = (size_t) i + (size_t) r.below((uint64_t) (ngroups - i)); std::swap(gi[(size_t) i], gi[j]); p.cfg["grp_m" + std::to_string(i + 1)] = GROUPS[gi[(size_t) i]].id; }
    if (r.chance(1, 3)) { int pick = (int) r.below((uint64_t) ng); p.cfg["grp_o1"] = GROUPS[gi[(size_t) pick]].id; }   // the peer accepts only one of them
    p.cfg["key_shares"] = 1 + (int64_t) r.below((uint64_t) (ng > 1 ? 2 : 1));
    if (r.chance(1, 2)) { p.cfg["orange"] = 1; }
    else if (ver != 2 && r.chance(1, 2)) { p.cfg["mrange"] = 1; }
    p.cfg["chunk"] = (int64_t) r.below(4);
    p.cfg["pl"] = (int64_t) r.below(4096);
    if (r.chance(2, 3)) { p.cfg["resume"] = 1 + (int64_t) r.below(2); }    // 1: one resumed connection, 2: two
    if (ver == 2 && role == 1 && p.get("resume") && r.chance(1, 2)) { p.cfg["oearly"] = 1 + (int64_t) r.below(3000); }
    if (ver == 2 && role == 0 && p.get("resume") && r.chance(1, 2)) { p.cfg["mearly"] = 1 + (int64_t) r.below(3000); }   // the MatrixSSL client sends 0-RTT data to the OpenSSL server   // the OpenSSL client sends 0-RTT data on the resumed connections
    return p;
}

// the whole mutual matrix once: role x version x suite x resumption (first connection + one resumed connection)
static std::vector<Plan> c10_fixed(int tier) {
    (void) tier;
    std::vector<Plan> v;
    for (int role = 0; role < 2; role++) {
        for (int ver = 0; ver < 3; ver++) {
            if (ver == 2) {
                for (int s = 0; s < 3; s++) { for (int kind : { KK_RSA2048, KK_EC256 }) { for (int g = 0; g < 4; g++) {
                    Plan p; p.seed = 100000 + (uint64_t) (role * 10000 + s * 100 + kind * 10 + g); base_cfg(p, role, ver, S13[s], kind); p.cfg["resume"] = 1; p.cfg["grp_m1"] = GROUPS[g].id; p.cfg["pl"] = s * 7 + g; v.push_back(p);
                } } }
                // HelloRetryRequest: first share refused
                for (int g = 0; g < 4; g++) { Plan p; p.seed = 101000 + (uint64_t) (role * 10 + g); base_cfg(p, role, ver, S13[g % 3], KK_EC256); p.cfg["grp_m1"] = GROUPS[g].id; p.cfg["grp_m2"] = GROUPS[(g + 1) % 4].id; p.cfg["grp_o1"] = GROUPS[(g + 1) % 4].id; p.cfg["resume"] = 1; v.push_back(p); }
                continue;
            }
            for (auto &row : ROWS) {
                if (row.min12 && ver == 0) { continue; }
                for (int t = 0; t < 2; t++) {
                    Plan p; p.seed = 102000 + (uint64_t) (role * 10000 + ver * 1000 + row.id % 997 + t); base_cfg(p, role, ver, row.id, row.kind); p.cfg["tickets"] = t; p.cfg["resume"] = 1; p.cfg["pl"] = row.id % 50; v.push_back(p);
                }
            }
            for (int ck : { KK_RSA2048, KK_EC256 }) { Plan p; p.seed = 103000 + (uint64_t) (role * 100 + ver * 10 + ck); base_cfg(p, role, ver, ver == 0 ? TLS_ECDHE_RSA_WITH_AES_128_CBC_SHA : TLS_ECDHE_RSA_WITH_AES_128_GCM_SHA256, KK_RSA2048); p.cfg["cauth"] = ck; v.push_back(p); }
            if (ver == 1) {
                // client authentication x hash of the client certificate's signature x PRF hash of the suite (CertificateVerify and Finished use the same running hashes)
                for (int ck : { KK_RSA2048, KK_EC256, KK_EC384, KK_EC384_SHA384 }) {
                    for (uint16_t su : { (uint16_t) TLS_ECDHE_RSA_WITH_AES_128_GCM_SHA256, (uint16_t) TLS_ECDHE_RSA_WITH_AES_256_GCM_SHA384, (uint16_t) TLS_ECDHE_RSA_WITH_AES_256_CBC_SHA384, (uint16_t) TLS_RSA_WITH_AES_256_GCM_SHA384, (uint16_t) TLS_RSA_WITH_AES_256_CBC_SHA256 }) {
                        Plan p; p.seed = 104000 + (uint64_t) (role * 1000 + ck * 50 + su % 47); base_cfg(p, role, ver, su, KK_RSA2048); p.cfg["cauth"] = ck; p.cfg["resume"] = 1; p.cfg["pl"] = ck + su % 13; v.push_back(p);
                    }
                }
            }
        }
    }
    // TLS 1.3 0-RTT from the OpenSSL client to a MatrixSSL server that enabled early data: accepted (same group) and after a HelloRetryRequest (must be skipped)
    for (int s = 0; s < 3; s++) { for (int hrr = 0; hrr < 2; hrr++) { for (int len : { 1, 300, 1200 }) {
        Plan p; p.seed = 108000 + (uint64_t) (s * 100 + hrr * 10 + len % 7); base_cfg(p, 1, 2, S13[s], KK_EC256); p.cfg["resume"] = 2; p.cfg["oearly"] = len; p.cfg["pl"] = s;
        if (hrr) { p.cfg["grp_m1"] = GROUPS[1].id; p.cfg["grp_o1"] = GROUPS[0].id; p.cfg["grp_o2"] = GROUPS[1].id; }     // client's first share P-256, server only takes P-384
        v.push_back(p);
    } } }
    for (int s = 0; s < 3; s++) { for (int hrr = 0; hrr < 2; hrr++) { for (int len : { 2, 301, 1199 }) {
        Plan p; p.seed = 109000 + (uint64_t) (s * 100 + hrr * 10 + len % 7); base_cfg(p, 0, 2, S13[s], KK_EC256); p.cfg["resume"] = 1; p.cfg["mearly"] = len; p.cfg["pl"] = s;
        if (hrr) { p.cfg["grp_m1"] = GROUPS[0].id; p.cfg["grp_m2"] = GROUPS[1].id; p.cfg["grp_o1"] = GROUPS[1].id; p.cfg["key_shares"] = 1; }
        v.push_back(p);
    } } }
    // DTLS 1.0 / 1.2: every suite both stacks have, both roles, first connection + session-id resumption
    for (int role = 0; role < 2; role++) {
        for (int ver = 3; ver < 5; ver++) {
            for (auto &row : ROWS) {
                if (row.min12 && ver == 3) { continue; }
                Plan p; p.seed = 106000 + (uint64_t) (role * 10000 + ver * 1000 + row.id % 997); base_cfg(p, role, ver, row.id, row.kind); p.cfg["resume"] = 1; p.cfg["pl"] = row.id % 50; v.push_back(p);
            }
            for (int ck : { KK_RSA2048, KK_EC256 }) { Plan p; p.seed = 107000 + (uint64_t) (role * 100 + ver * 10 + ck); base_cfg(p, role, ver, ver == 3 ? TLS_ECDHE_RSA_WITH_AES_128_CBC_SHA : TLS_ECDHE_RSA_WITH_AES_128_GCM_SHA256, KK_RSA2048); p.cfg["cauth"] = ck; v.push_back(p); }
        }
    }
    // TLS 1.3 over finite-field groups: many handshakes with fresh exponents (a shared secret with leading zero octets - one in 256 - must be
    // left-padded to the size of the prime, RFC 8446 7.4.1; only an independent peer can tell)
    for (int role = 0; role < 2; role++) {
        int n = tier ? 1500 : 420;
        for (int i = 0; i < n; i++) {
            Plan p; p.seed = 112000 + (uint64_t) (role * 100000 + i);
            base_cfg(p, role, 2, S13[i % 3], (i & 1) ? KK_RSA2048 : KK_EC256);
            int g = (i % 16 == 15) ? 257 : 256;
            p.cfg["grp_m1"] = g; p.cfg["grp_o1"] = g; p.cfg["key_shares"] = 1; p.cfg["pl"] = i % 7; p.cfg["chunk"] = 0;
            v.push_back(p);
        }
    }
    // the MatrixSSL side enables a version range (TLS 1.1+1.2, DTLS 1.0+1.2) and the OpenSSL side only one of the two: every suite, both roles
    for (int role = 0; role < 2; role++) {
        for (int ver : { 0, 1, 3, 4 }) {
            for (auto &row : ROWS) {
                if (row.min12 && (ver == 0 || ver == 3)) { continue; }
                Plan p; p.seed = 110000 + (uint64_t) (role * 10000 + ver * 1000 + row.id % 997); base_cfg(p, role, ver, row.id, row.kind); p.cfg["mrange"] = 1; p.cfg["resume"] = 1; p.cfg["pl"] = row.id % 50; v.push_back(p);
            }
        }
    }
    return v;
}

static RunResult c10_exec(const Plan &p) {
    RunResult res;
    vsim_run_reset(p.seed);
    ossl_seed(p.seed);
    sim_global_open();
    {
        Interop it(p);
        std::string ctx = std::string(it.role == 0 ? "mx_client" : "mx_server") + "," + VN[it.ver] + "," + suite_name(it.suite) + "," + keykind_name(it.sid_kind) + (it.cauth ? ",cauth" : "");
        if (!it.setup()) {
            if (it.setup_err.rfind("not_mutual", 0) == 0) { res.count("not_mutual"); res.fingerprint = 1; }
            else { res.harness_error = true; res.detail = it.setup_err + " (" + ctx + ")"; }
        } else {
            int nres = (int) p.get("resume");
            uint64_t f = 0;
            for (int i = 0; i <= nres && !res.violation; i++) {
                Conn c = it.connect(i > 0, i);
                f = mix64(f, mix64(c.fp, (uint64_t) c.ok * 4 + (uint64_t) c.mx_resumed * 2 + (uint64_t) c.os_resumed));
                std::string stage = i == 0 ? "first" : "resumed";
                if (!c.ok) {
                    // whose fault?  the same configuration must work for each stack against itself
                    int mm = control_mm(p, i > 0); bool oo = control_oo(p, i > 0);
                    if (mm != 1 && oo) {
                        res.violate("interop_failure", ctx + "," + stage + (c.mx_complete && c.os_complete ? ",data" : ",handshake") + (mm == 2 ? ",also_fails_against_itself" : ""), ctx + " connection " + std::to_string(i) + " (" + stage + "): " + c.why +
                                    (mm == 0 ? "; the same configuration passes MatrixSSL<->MatrixSSL and OpenSSL<->OpenSSL" : "; OpenSSL<->OpenSSL passes this configuration, and MatrixSSL<->MatrixSSL fails it too, but not by refusing to negotiate it"));
                    } else { res.count(std::string("not_mutual.") + (mm == 1 ? "mm_refuses" : "") + (oo ? "" : "oo_fails")); res.states.push_back("not_mutual," + ctx); }
                    break;
                }
                if (c.mx_resumed != c.os_resumed) { res.violate("endpoints_disagree_on_resumption", ctx, ctx + ": matrix resumed=" + std::to_string(c.mx_resumed) + " openssl resumed=" + std::to_string(c.os_resumed)); break; }
                if (c.os_ver != OVER[it.ver]) { res.violate("wrong_version_negotiated", ctx, ctx + ": OpenSSL reports version " + std::to_string(c.os_ver)); break; }
                res.count("conn." + stage + (c.mx_resumed ? ".resumed" : ".full"));
                res.count(std::string("conn.") + VN[it.ver] + (it.role == 0 ? ".mx_client" : ".mx_server"));
                if (!c.os_group.empty()) { res.count("group." + c.os_group); }
                if (i > 0 && !c.mx_resumed) { res.count("resumption_fell_back_to_full." + std::string(VN[it.ver]) + (it.role == 0 ? ".mx_client" : ".mx_server") + (it.tickets || it.ver == 2 ? ".ticket" : ".id")); }
                res.states.push_back(ctx + "," + stage + (c.mx_resumed ? ",resumed" : ",full") + "," + c.os_group);
            }
            for (auto &kv : it.counters) { res.counters[kv.first] += kv.second; }
            res.fingerprint = f;
            res.nontrivial = f != 0;
        }
    }
    sim_global_close();
    return res;
}

static ModuleRegistrar reg({ "C10", "interop", "exploration",
    "fixed plans: the whole mutually supported matrix once - role (MatrixSSL client vs OpenSSL server, OpenSSL client vs MatrixSSL server) x TLS 1.1/1.2/1.3 and DTLS 1.0/1.2 x every suite both stacks have "
    "(RSA / ECDHE-RSA / ECDHE-ECDSA with AES-CBC-SHA/SHA256/SHA384 and AES-GCM; TLS 1.3 AES-128/256-GCM, ChaCha20-Poly1305) x session-id / ticket / TLS 1.3 PSK resumption x groups incl. HelloRetryRequest x client auth; "
    "seeded plans: swarm over the same axes plus server key kinds (RSA-2048, P-256/384/521), group offers, key-share counts, OpenSSL version range, EMS off, 1-2 resumed connections, payload lengths from a boundary set (1..33000) and "
    "four re-chunking modes. non-trivial = at least one connection was attempted with both stacks; distinct = distinct (transcript digest, outcome)",
    c10_gen, c10_exec, 2500, 100000, 60, 1500,
    { "core", "crypto", "matrixssl (one endpoint per connection)", "OpenSSL libssl/libcrypto 3.x (the independent peer, static, in-process; its RNG replaced by a seeded stream, its clock simulated)" },
    { "transport (in-memory, benign re-chunking only)", "applications", "clock", "entropy" },
    { "configurations one of the stacks cannot do against itself are counted as not_mutual, not as violations",
      "PSK suites, DHE-RSA and static ECDH suites are not part of this workload (OpenSSL 3 lacks or disables several of them); DTLS runs are lossless and in order (loss is C16's business)" },
    "asan", c10_fixed, false });
