#include "sealaudit.h"
#include <cstring>
#include <cstdlib>
#include <cstdio>

void SealAudit::on_probe(const vsim_probe_t *p) {
    if (p->kind == VSIM_PR_GCM_ENC || p->kind == VSIM_PR_CHACHA_ENC) {
        uintptr_t ctx = 0; memcpy(&ctx, p->iv, sizeof ctx);
        const Sess *s = find(ctx);
        if (!s) { counters["seal.outside_session"]++; return; }   // e.g. session-ticket encryption: not a record key
        counters["seal.aead"]++;
        uint64_t key = p->key_id ^ ((uint64_t) s->lo * 0x9E3779B97F4A7C15ULL);
        std::string nonce((const char *) p->nonce, (size_t) p->nonce_len);
        auto k = std::make_pair(key, nonce);
        auto it = aead.find(k);
        if (it != aead.end()) {
            bool identical = it->second.aad == p->aad_digest && it->second.pt == p->pt_digest && it->second.pt_len == p->pt_len;
            if (identical) { counters[s->dtls ? "seal.dtls_identical_retransmit" : "seal.identical_repeat"]++; }   // byte-for-byte repetition is not a *different* record
            else {
                fail("aead_nonce_reuse", std::string(s->dtls ? "dtls" : "tls") + (p->kind == VSIM_PR_CHACHA_ENC ? ",chacha" : ",gcm") + (identical ? ",identical" : ",different_plaintext"),
                     "two seals under one traffic key used the same nonce " + hex((const unsigned char *) nonce.data(), nonce.size()) + " (node " + std::to_string(p->node) + ", plaintext lengths " +
                     std::to_string(it->second.pt_len) + " and " + std::to_string(p->pt_len) + ")");
            }
        } else { aead[k] = { p->aad_digest, p->pt_digest, p->pt_len }; }
        // TLS 1.2 AES-GCM: nonce = 4-byte salt || 8-byte explicit part, which is the record sequence number: strictly increasing per key
        if (!s->dtls && p->kind == VSIM_PR_GCM_ENC && p->aad_len == 13 && p->nonce_len == 12) {
            std::string ex = nonce.substr(4);
            auto le = last_explicit.find(key);
            if (le != last_explicit.end() && !(le->second < ex)) {
                fail("seq_not_increasing", "tls1.2,gcm", "explicit nonce / sequence number did not increase: " + hex((const unsigned char *) le->second.data(), 8) + " then " + hex((const unsigned char *) ex.data(), 8));
            }
            last_explicit[key] = ex;
        }
    } else if (p->kind == VSIM_PR_CBC_ENC) {
        uintptr_t ctx = (uintptr_t) p->aad_digest;
        const Sess *s = find(ctx);
        if (!s) { counters["cbc.outside_session"]++; return; }
        if (getenv("VSIM_TRACE")) { fprintf(stderr, "CBC_ENC node %d len %d keyid %llx pt %s ct %s\n", p->node, p->pt_len, (unsigned long long) p->key_id, hex(p->pt_head, 16).c_str(), hex(p->ct_head, 16).c_str()); }
        if (p->pt_len < 16) { counters["cbc.short"]++; return; }
        counters["seal.cbc_calls"]++;
        // Is the first plaintext block of this call an explicit IV, i.e. a 16-byte draw from this node's entropy source not used before?
        static vsim_draw_t dr[1024]; int n = vsim_entropy_recent(dr, 1024);
        for (int i = 0; i < n; i++) {
            if (dr[i].node == p->node && dr[i].len == 16 && !memcmp(dr[i].head, p->pt_head, 16) && !used_draws.count(dr[i].seq)) {
                used_draws.insert(dr[i].seq);
                fresh_iv_ct[s->lo].insert(std::string((const char *) p->ct_head, 16));
                counters["cbc.fresh_iv_blocks"]++;
                break;
            }
        }
    }
}

void SealAudit::on_wire_cbc_record(const void *ssl, const unsigned char *body, size_t n, bool dtls) {
    if (n < 32) { return; }
    uintptr_t lo = (uintptr_t) ssl;
    std::string iv((const char *) body, 16);
    counters["seal.cbc"]++;
    if (!fresh_iv_ct[lo].count(iv)) {
        fail("cbc_iv_not_fresh", dtls ? "dtls" : "tls", "a CBC record on the wire starts with an explicit-IV block that is not the encryption of a fresh 16-byte entropy draw made for it (" + hex(body, 16) + ")");
    }
    if (!wire_ivs[lo].insert(iv).second) {
        fail("cbc_iv_repeated", dtls ? "dtls" : "tls", "two CBC records of one connection carry the same explicit IV block " + hex(body, 16));
    }
}

void SealAudit::on_wire_dtls_record(const void *ssl, unsigned epoch, uint64_t seq, const unsigned char *raw, size_t n) {
    auto k = std::make_pair((uintptr_t) ssl, std::make_pair(epoch, seq));
    uint64_t d = hash_bytes(raw, n);
    counters["seal.dtls_wire_records"]++;
    auto it = dtls_numbers.find(k);
    if (it == dtls_numbers.end()) { dtls_numbers[k] = d; return; }
    if (it->second == d) { counters["seal.dtls_wire_identical_repeat"]++; return; }     // a byte-for-byte retransmission is allowed
    fail("seq_not_increasing", "dtls,record_number_reused", "two different protected DTLS records left one endpoint under the same epoch/sequence number " + std::to_string(epoch) + "/" + std::to_string(seq) +
         " (the number is bound into the MAC / AEAD nonce)");
}

void SealAudit::on_wire_gcm12_record(const void *ssl, const unsigned char *body, size_t n) {
    if (n < 8 + 16) { return; }
    std::string ex((const char *) body, 8);
    counters["seal.gcm12_wire_records"]++;
    auto it = wire_gcm_last.find((uintptr_t) ssl);
    if (it != wire_gcm_last.end() && !(it->second < ex)) {
        fail("seq_not_increasing", "tls1.2,gcm,wire", "two consecutive TLS 1.2 AES-GCM records of one sender carry explicit nonces " + hex((const unsigned char *) it->second.data(), 8) + " then " + hex(body, 8) +
             " (the explicit nonce is the record sequence number: it must strictly increase under one key)");
    }
    wire_gcm_last[(uintptr_t) ssl] = ex;
}
