#include "util.h"
#include <cstdlib>
#include <fstream>
#include <sstream>

std::string hex(const unsigned char *p, size_t n) {
    static const char *d = "0123456789abcdef";
    std::string s; s.reserve(n * 2);
    for (size_t i = 0; i < n; i++) { s += d[p[i] >> 4]; s += d[p[i] & 15]; }
    return s;
}
std::string hex(const Bytes &b) { return hex(b.data(), b.size()); }
Bytes unhex(const std::string &s) {
    Bytes b;
    auto v = [](char c) { return c >= 'a' ? c - 'a' + 10 : c >= 'A' ? c - 'A' + 10 : c - '0'; };
    for (size_t i = 0; i + 1 < s.size(); i += 2) { b.push_back((unsigned char) (v(s[i]) * 16 + v(s[i + 1]))); }
    return b;
}
std::string u64hex(uint64_t v) { char buf[32]; snprintf(buf, sizeof buf, "%016llx", (unsigned long long) v); return buf; }

std::string json_escape(const std::string &s) {
    std::string o;
    for (unsigned char c : s) {
        if (c == '"' || c == '\\') { o += '\\'; o += (char) c; }
        else if (c == '\n') { o += "\\n"; }
        else if (c < 0x20) { char b[8]; snprintf(b, sizeof b, "\\u%04x", c); o += b; }
        else { o += (char) c; }
    }
    return o;
}

std::string Op::str() const {
    std::ostringstream o;
    o << k << "(" << a << "," << b << "," << c << "," << d;
    if (!s.empty()) { o << "," << s; }
    o << ")";
    return o.str();
}

std::string Plan::json() const {
    std::ostringstream o;
    o << "{\"property\":\"" << prop << "\",\"seed\":" << seed << ",\"cfg\":{";
    bool first = true;
    for (auto &kv : cfg) { o << (first ? "" : ",") << "\"" << kv.first << "\":" << kv.second; first = false; }
    o << "},\"scfg\":{";
    first = true;
    for (auto &kv : scfg) { o << (first ? "" : ",") << "\"" << kv.first << "\":\"" << json_escape(kv.second) << "\""; first = false; }
    o << "},\"ops\":[";
    for (size_t i = 0; i < ops.size(); i++) {
        const Op &p = ops[i];
        o << (i ? "," : "") << "{\"k\":\"" << p.k << "\"";
        if (p.a) { o << ",\"a\":" << p.a; }
        if (p.b) { o << ",\"b\":" << p.b; }
        if (p.c) { o << ",\"c\":" << p.c; }
        if (p.d) { o << ",\"d\":" << p.d; }
        if (!p.s.empty()) { o << ",\"s\":\"" << json_escape(p.s) << "\""; }
        o << "}";
    }
    o << "]}";
    return o.str();
}

// ---- minimal JSON reader (objects, arrays, strings, integers, true/false/null) ----
namespace {
struct JP {
    const std::string &t; size_t i = 0; bool ok = true;
    explicit JP(const std::string &s) : t(s) {}
    void ws() { while (i < t.size() && (t[i] == ' ' || t[i] == '\n' || t[i] == '\t' || t[i] == '\r')) { i++; } }
    bool eat(char c) { ws(); if (i < t.size() && t[i] == c) { i++; return true; } return false; }
    bool peek(char c) { ws(); return i < t.size() && t[i] == c; }
    std::string str() {
        std::string o; ws();
        if (i >= t.size() || t[i] != '"') { ok = false; return o; }
        i++;
        while (i < t.size() && t[i] != '"') {
            if (t[i] == '\\' && i + 1 < t.size()) {
                i++;
                if (t[i] == 'n') { o += '\n'; }
                else if (t[i] == 'u' && i + 4 < t.size()) { o += (char) strtol(t.substr(i + 1, 4).c_str(), nullptr, 16); i += 4; }
                else { o += t[i]; }
            } else { o += t[i]; }
            i++;
        }
        i++;
        return o;
    }
    int64_t num() {
        ws(); size_t j = i;
        if (j < t.size() && (t[j] == '-' || t[j] == '+')) { j++; }
        while (j < t.size() && ((t[j] >= '0' && t[j] <= '9') || t[j] == '.' || t[j] == 'e' || t[j] == 'E')) { j++; }
        if (j == i) { ok = false; return 0; }
        // unsigned 64-bit seeds are written as plain integers
        std::string s = t.substr(i, j - i); i = j;
        if (s[0] == '-') { return (int64_t) strtoll(s.c_str(), nullptr, 10); }
        return (int64_t) strtoull(s.c_str(), nullptr, 10);
    }
    void skip() {
        ws();
        if (peek('"')) { str(); }
        else if (eat('{')) { if (!eat('}')) { do { str(); eat(':'); skip(); } while (eat(',')); eat('}'); } }
        else if (eat('[')) { if (!eat(']')) { do { skip(); } while (eat(',')); eat(']'); } }
        else { while (i < t.size() && t[i] != ',' && t[i] != '}' && t[i] != ']') { i++; } }
    }
};
}

bool Plan::parse(const std::string &txt, Plan &out, std::string *ecls, std::string *esig) {
    JP p(txt);
    if (!p.eat('{')) { return false; }
    auto parse_plan_obj = [&](auto &self) -> void {
        do {
            std::string k = p.str(); p.eat(':');
            if (k == "property") { out.prop = p.str(); }
            else if (k == "seed") { out.seed = (uint64_t) p.num(); }
            else if (k == "cfg") {
                p.eat('{');
                if (!p.eat('}')) { do { std::string ck = p.str(); p.eat(':'); out.cfg[ck] = p.num(); } while (p.eat(',')); p.eat('}'); }
            } else if (k == "scfg") {
                p.eat('{');
                if (!p.eat('}')) { do { std::string ck = p.str(); p.eat(':'); out.scfg[ck] = p.str(); } while (p.eat(',')); p.eat('}'); }
            } else if (k == "ops") {
                p.eat('[');
                if (!p.eat(']')) {
                    do {
                        Op op; p.eat('{');
                        if (!p.eat('}')) {
                            do {
                                std::string ok = p.str(); p.eat(':');
                                if (ok == "k") { op.k = p.str(); }
                                else if (ok == "s") { op.s = p.str(); }
                                else if (ok == "a") { op.a = p.num(); }
                                else if (ok == "b") { op.b = p.num(); }
                                else if (ok == "c") { op.c = p.num(); }
                                else if (ok == "d") { op.d = p.num(); }
                                else { p.skip(); }
                            } while (p.eat(','));
                            p.eat('}');
                        }
                        out.ops.push_back(op);
                    } while (p.eat(','));
                    p.eat(']');
                }
            } else if (k == "plan") { p.eat('{'); self(self); p.eat('}'); }
            else if (k == "expected_class" && ecls) { *ecls = p.str(); }
            else if (k == "expected_signature" && esig) { *esig = p.str(); }
            else { p.skip(); }
        } while (p.eat(','));
    };
    parse_plan_obj(parse_plan_obj);
    return p.ok && !out.prop.empty();
}

bool read_file(const std::string &path, std::string &out) {
    std::ifstream f(path, std::ios::binary);
    if (!f) { return false; }
    std::ostringstream s; s << f.rdbuf(); out = s.str();
    return true;
}
bool write_file(const std::string &path, const std::string &txt) {
    std::ofstream f(path, std::ios::binary | std::ios::trunc);
    if (!f) { return false; }
    f << txt;
    return (bool) f;
}
