// Property-module registry and the shared search / gate / minimise / evidence driver.
#pragma once
#include "util.h"
#include <functional>

struct RunResult {
    bool violation = false;
    std::string cls;        // violation class (closed set per property)
    std::string sig;        // narrow signature: class + context, compared with known_findings.txt
    std::string detail;     // human-readable
    uint64_t fingerprint = 0;
    bool nontrivial = false;          // by the module's stated rule
    bool harness_error = false;       // control failed / setup failed: never blamed on the repo (exit 2)
    std::map<std::string, int64_t> counters;   // faults fired, probes hit
    std::vector<std::string> states;            // (role,version,state,fault) tuples reached
    double sim_ms = 0;
    int first_bad_event = -1;
    void violate(const std::string &c, const std::string &s, const std::string &d) {
        if (!violation) { violation = true; cls = c; sig = c + "|" + s; detail = d; }
    }
    void count(const std::string &k, int64_t n = 1) { counters[k] += n; }
};

struct PropModule {
    const char *id;
    const char *engine;
    const char *level;                 // "exploration" | "fault_enumeration"
    const char *rule;                  // how cases are generated, what counts as non-trivial/distinct
    Plan (*gen)(uint64_t seed, int tier, uint64_t index);     // tier 0 quick, 1 thorough
    RunResult (*exec)(const Plan &);
    int quick_runs, thorough_runs;     // run budget per tier (also capped by wall-clock)
    int quick_secs, thorough_secs;
    std::vector<std::string> real_components, stub_components, assumptions;
    const char *variant;               // build variant the check uses ("asan", "tsan", "plain")
    // optional: a fixed list of plans that are always run first (aimed/deterministic enumerations)
    std::vector<Plan> (*fixed_plans)(int tier);
    bool exhaustive_fixed;             // fixed plans enumerate a finite space completely
};

void register_module(const PropModule &m);
const PropModule *find_module(const std::string &id);

struct ModuleRegistrar { explicit ModuleRegistrar(const PropModule &m) { register_module(m); } };

// run a plan in a forked child (crash-isolated). Returns false if the child died; then `crash` holds the
// classified sanitizer/signal report.
struct ChildOutcome { bool ok = false; RunResult res; std::string crash_kind, crash_func, crash_text; int status = 0; bool timeout = false; };
ChildOutcome run_in_child(const PropModule &m, const Plan &p, int timeout_s = 30);

// UBSan reports (kind@file:line) recorded since the last call (empty in builds without UBSan)
std::vector<std::string> ubsan_take_reports();
