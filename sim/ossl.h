// OsslEndpoint: an OpenSSL (libssl, statically linked) client or server driven through memory BIOs inside the simulator.
// The independent peer of C10.  Its randomness comes from a seeded stream (RAND method replaced), its clock is the simulated one
// (time/gettimeofday/clock_gettime are link-time wrapped for the static libcrypto too).
#pragma once
#include "util.h"
#include <string>
#include <vector>

struct OsslCfg {
    bool server = false;
    bool dtls = false;
    int min_ver = 0, max_ver = 0;          // TLS1_1_VERSION ... / DTLS1_VERSION ...; 0 = library default
    std::string cipher_list;               // TLS <= 1.2 (OpenSSL names); empty = ALL
    std::string suites13;                  // TLS 1.3 ciphersuites; empty = default
    std::string groups;                    // e.g. "P-256:P-384"; empty = default
    std::string sigalgs;                   // empty = default
    int identity = 0;                      // KeyKind of own certificate (0 = none)
    unsigned ca_mask = 0;                  // trusted CA kinds
    bool request_client_cert = false;      // server: request and require a client certificate
    bool tickets = true;                   // server: RFC 5077 / TLS 1.3 tickets enabled; false = stateful cache only (TLS <= 1.2)
    bool ems = true;                       // extended master secret allowed (false: SSL_OP_NO_EXTENDED_MASTER_SECRET)
    int num_tickets = 2;                   // TLS 1.3 server
    bool psk = false;                      // TLS <= 1.2 PSK callbacks with the repository's test PSK table
    int max_early = 0;                     // server: accept up to this much TLS 1.3 0-RTT data (read with SSL_read_early_data)
};

struct OsslShared;     // SSL_CTX + saved client session: survives across connections of one run (resumption state)
OsslShared *ossl_shared_new(const OsslCfg &cfg, std::string *err);
void ossl_shared_free(OsslShared *);
void ossl_seed(uint64_t seed);            // per-run: reseed the replaced RAND method
void ossl_global_init();

class OsslEndpoint {
  public:
    OsslCfg cfg;
    std::vector<Bytes> delivered;
    bool complete = false;
    bool failed = false; std::string fail_reason;
    int alert_sent = -1, alert_received = -1;
    bool got_close_notify = false;
    Fingerprint fp;
    ~OsslEndpoint();
    std::vector<Bytes> early_delivered;            // server: 0-RTT data read before the handshake finished
    Bytes early_payload;                           // client, TLS 1.3 resumption: written as 0-RTT data with the ClientHello (set before create)
    int early_write_rc = -2;                       // SSL_write_early_data result (-2: not attempted)
    int early_status();                            // 0 not sent, 1 rejected, 2 accepted (SSL_get_early_data_status)
    bool create(OsslShared *sh, bool resume);     // resume: client offers the session saved in sh
    int feed(const unsigned char *p, size_t n);    // network input
    Bytes pull(size_t max = (size_t) -1);          // pending output
    size_t pending_out();
    int app_send(const unsigned char *p, size_t n);
    int app_close();
    bool is_resumed();
    int negotiated_version();                     // TLS1_2_VERSION etc.
    std::string negotiated_cipher();
    std::string negotiated_group();
    void drive();                                  // advance handshake / read application data
    bool alive() const { return ssl_ != nullptr; }
  private:
    void *ssl_ = nullptr; void *rbio_ = nullptr, *wbio_ = nullptr; OsslShared *sh_ = nullptr;
    bool early_read_done_ = false;
    std::vector<Bytes> pending_writes_;            // application payloads accepted before the handshake finished
};

const char *ossl_cipher_name_for_id(uint16_t id);   // OpenSSL name of an IANA suite id ("" if OpenSSL does not have it)

// Build a DER CRL issued (and signed) by the CA of test identity `kind` (CA key read from <repo>/testkeys), optionally revoking that
// identity's leaf certificate.  Used by C20 (CRL cache operations concurrent with handshakes).
bool ossl_make_crl(int kind, bool revoke_leaf, Bytes &der, std::string *err);
