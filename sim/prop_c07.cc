// C07 - negotiated version / suite / group / signature algorithm are ones both sides enabled and the client offered;
// by default the highest common version; both ends agree; any in-transit change of the hellos, an unjustified
// fallback (SCSV) or an avoidable downgrade makes the handshake fail.
// Two independently configured endpoints + a man in the middle that rewrites single hello fields (well-formed).
#include "driver.h"
#include <set>
#include "world.h"
#include "peek.h"

// ------------------------------------------------------------------ hello editor
struct Hello {
    bool server = false, dtls = false;
    uint16_t legacy_version = 0; Bytes random, sid, cookie;
    std::vector<uint16_t> suites; uint16_t suite = 0; Bytes compression; uint8_t comp = 0;
    std::vector<std::pair<uint16_t, Bytes> > exts; bool has_exts = false;
};

static bool rd(const Bytes &b, size_t &o, size_t n, Bytes &out) { if (o + n > b.size()) { return false; } out.assign(b.begin() + (long) o, b.begin() + (long) (o + n)); o += n; return true; }

static bool parse_hello(const Bytes &body, bool server, bool dtls, Hello &h) {
    h.server = server; h.dtls = dtls;
    size_t o = 0; Bytes t;
    if (!rd(body, o, 2, t)) { return false; } h.legacy_version = (uint16_t) (t[0] << 8 | t[1]);
    if (!rd(body, o, 32, h.random)) { return false; }
    if (!rd(body, o, 1, t)) { return false; } if (!rd(body, o, t[0], h.sid)) { return false; }
    if (!server && dtls) { if (!rd(body, o, 1, t)) { return false; } if (!rd(body, o, t[0], h.cookie)) { return false; } }
    if (server) {
        if (!rd(body, o, 2, t)) { return false; } h.suite = (uint16_t) (t[0] << 8 | t[1]);
        if (!rd(body, o, 1, t)) { return false; } h.comp = t[0];
    } else {
        if (!rd(body, o, 2, t)) { return false; } size_t n = (size_t) (t[0] << 8 | t[1]); Bytes s; if (!rd(body, o, n, s)) { return false; }
        for (size_t i = 0; i + 1 < s.size(); i += 2) { h.suites.push_back((uint16_t) (s[i] << 8 | s[i + 1])); }
        if (!rd(body, o, 1, t)) { return false; } if (!rd(body, o, t[0], h.compression)) { return false; }
    }
    if (o == body.size()) { return true; }
    h.has_exts = true;
    if (!rd(body, o, 2, t)) { return false; } size_t el = (size_t) (t[0] << 8 | t[1]); if (o + el != body.size()) { return false; }
    while (o < body.size()) {
        if (!rd(body, o, 4, t)) { return false; } uint16_t ty = (uint16_t) (t[0] << 8 | t[1]); size_t l = (size_t) (t[2] << 8 | t[3]); Bytes d; if (!rd(body, o, l, d)) { return false; }
        h.exts.push_back({ ty, d });
    }
    return true;
}
static void w16(Bytes &b, size_t v) { b.push_back((unsigned char) (v >> 8)); b.push_back((unsigned char) v); }
static Bytes build_hello(const Hello &h) {
    Bytes b; w16(b, h.legacy_version); b.insert(b.end(), h.random.begin(), h.random.end());
    b.push_back((unsigned char) h.sid.size()); b.insert(b.end(), h.sid.begin(), h.sid.end());
    if (!h.server && h.dtls) { b.push_back((unsigned char) h.cookie.size()); b.insert(b.end(), h.cookie.begin(), h.cookie.end()); }
    if (h.server) { w16(b, h.suite); b.push_back(h.comp); }
    else { w16(b, h.suites.size() * 2); for (auto s : h.suites) { w16(b, s); } b.push_back((unsigned char) h.compression.size()); b.insert(b.end(), h.compression.begin(), h.compression.end()); }
    if (h.has_exts) {
        Bytes e; for (auto &x : h.exts) { w16(e, x.first); w16(e, x.second.size()); e.insert(e.end(), x.second.begin(), x.second.end()); }
        w16(b, e.size()); b.insert(b.end(), e.begin(), e.end());
    }
    return b;
}
static Bytes *find_ext(Hello &h, uint16_t ty) { for (auto &x : h.exts) { if (x.first == ty) { return &x.second; } } return nullptr; }

enum { XT_GROUPS = 10, XT_SIG_ALGS = 13, XT_EMS = 23, XT_SUPPORTED_VERSIONS = 43 };
enum { RW_NONE = 0, RW_CH_LEGACY_VERSION, RW_CH_DROP_SUITE, RW_CH_KEEP_ONE_SUITE, RW_CH_REORDER_SUITES, RW_CH_ADD_SCSV, RW_CH_SUPPVER_DROP_TOP, RW_CH_SUPPVER_REMOVE, RW_CH_GROUPS_DROP, RW_CH_SIGALGS_DROP, RW_CH_EMS_REMOVE, RW_CH_SID,
       RW_SH_VERSION, RW_SH_SUITE, RW_SH_SUPPVER, RW_SH_RANDOM_TAIL, RW_SH_EMS_REMOVE, RW_SH_SID, RW_N };
static const char *RW_NAME[] = { "none", "ch_legacy_version", "ch_drop_suite", "ch_keep_one_suite", "ch_reorder_suites", "ch_add_fallback_scsv", "ch_supported_versions_drop_top", "ch_supported_versions_remove", "ch_groups_drop", "ch_sigalgs_drop",
                                 "ch_ems_remove", "ch_session_id", "sh_version", "sh_suite", "sh_supported_versions", "sh_random_tail", "sh_ems_remove", "sh_session_id" };

// apply one rewrite; returns true if the message changed
static bool rewrite(Hello &h, int rw, uint64_t a) {
    Bytes before = build_hello(h);
    switch (rw) {
    case RW_CH_LEGACY_VERSION: if (!h.server) { static const uint16_t V[] = { 0x0302, 0x0303, 0x0301, 0x0304, 0xfeff, 0xfefd }; uint16_t nv = V[a % 6]; if (h.dtls != (nv >= 0xfe00)) { nv = h.dtls ? (h.legacy_version == 0xfefd ? 0xfeff : 0xfefd) : 0x0302; } h.legacy_version = nv; } break;
    case RW_CH_DROP_SUITE: if (!h.server && h.suites.size() > 1) { h.suites.erase(h.suites.begin() + (long) (a % h.suites.size())); } break;
    case RW_CH_KEEP_ONE_SUITE: if (!h.server && h.suites.size() > 1) { uint16_t k = h.suites[a % h.suites.size()]; h.suites.assign(1, k); } break;
    case RW_CH_REORDER_SUITES: if (!h.server && h.suites.size() > 1) { std::swap(h.suites[0], h.suites[1 + a % (h.suites.size() - 1)]); } break;
    case RW_CH_ADD_SCSV: if (!h.server) { h.suites.push_back(TLS_FALLBACK_SCSV); } break;
    case RW_CH_SUPPVER_DROP_TOP: if (!h.server) { Bytes *e = find_ext(h, XT_SUPPORTED_VERSIONS); if (e && e->size() >= 5) { e->erase(e->begin() + 1, e->begin() + 3); (*e)[0] = (unsigned char) (e->size() - 1); } } break;
    case RW_CH_SUPPVER_REMOVE: if (!h.server) { for (size_t i = 0; i < h.exts.size(); i++) { if (h.exts[i].first == XT_SUPPORTED_VERSIONS) { h.exts.erase(h.exts.begin() + (long) i); break; } } } break;
    case RW_CH_GROUPS_DROP: if (!h.server) { Bytes *e = find_ext(h, XT_GROUPS); if (e && e->size() >= 6) { size_t n = (e->size() - 2) / 2; size_t k = a % n; e->erase(e->begin() + (long) (2 + 2 * k), e->begin() + (long) (4 + 2 * k)); w16(*e, 0); e->resize(e->size() - 2); (*e)[0] = (unsigned char) ((e->size() - 2) >> 8); (*e)[1] = (unsigned char) (e->size() - 2); } } break;
    case RW_CH_SIGALGS_DROP: if (!h.server) { Bytes *e = find_ext(h, XT_SIG_ALGS); if (e && e->size() >= 6) { size_t n = (e->size() - 2) / 2; size_t k = a % n; e->erase(e->begin() + (long) (2 + 2 * k), e->begin() + (long) (4 + 2 * k)); (*e)[0] = (unsigned char) ((e->size() - 2) >> 8); (*e)[1] = (unsigned char) (e->size() - 2); } } break;
    case RW_CH_EMS_REMOVE: case RW_SH_EMS_REMOVE: if (h.server == (rw == RW_SH_EMS_REMOVE)) { for (size_t i = 0; i < h.exts.size(); i++) { if (h.exts[i].first == XT_EMS) { h.exts.erase(h.exts.begin() + (long) i); break; } } } break;
    case RW_CH_SID: case RW_SH_SID: if (h.server == (rw == RW_SH_SID)) { if (h.sid.empty()) { h.sid.assign(32, (unsigned char) (a | 1)); } else { h.sid[a % h.sid.size()] ^= 0x5a; } } break;
    case RW_SH_VERSION: if (h.server) { static const uint16_t V[] = { 0x0302, 0x0303, 0x0301 }; uint16_t nv = h.dtls ? (h.legacy_version == 0xfefd ? 0xfeff : 0xfefd) : V[a % 3]; if (nv == h.legacy_version) { nv = h.dtls ? 0xfeff : (uint16_t) (h.legacy_version == 0x0302 ? 0x0303 : 0x0302); } h.legacy_version = nv; } break;
    case RW_SH_SUITE: if (h.server) { static const uint16_t S[] = { TLS_RSA_WITH_AES_128_CBC_SHA, TLS_RSA_WITH_AES_256_CBC_SHA, TLS_ECDHE_RSA_WITH_AES_128_CBC_SHA, TLS_ECDHE_ECDSA_WITH_AES_128_CBC_SHA, TLS_RSA_WITH_AES_128_GCM_SHA256, TLS_AES_128_GCM_SHA256, TLS_AES_256_GCM_SHA384, TLS_CHACHA20_POLY1305_SHA256 }; uint16_t ns = S[a % 8]; if (ns == h.suite) { ns = S[(a + 1) % 8]; } h.suite = ns; } break;
    case RW_SH_SUPPVER: if (h.server) { Bytes *e = find_ext(h, XT_SUPPORTED_VERSIONS); if (e && e->size() == 2) { (*e)[1] = (unsigned char) ((*e)[1] == 4 ? 3 : 4); } } break;
    case RW_SH_RANDOM_TAIL: if (h.server) { static const unsigned char DOWNGRD[8] = { 0x44, 0x4F, 0x57, 0x4E, 0x47, 0x52, 0x44, 0x01 }; if (a & 1) { memcpy(&h.random[24], DOWNGRD, 8); } else { h.random[24 + a % 8] ^= 0x01; } } break;
    }
    return build_hello(h) != before;
}

// ------------------------------------------------------------------ plans
static const uint16_t POOL12[] = { TLS_RSA_WITH_AES_128_CBC_SHA, TLS_RSA_WITH_AES_256_CBC_SHA, TLS_RSA_WITH_AES_128_CBC_SHA256, TLS_RSA_WITH_AES_128_GCM_SHA256, TLS_ECDHE_RSA_WITH_AES_128_CBC_SHA,
                                   TLS_ECDHE_RSA_WITH_AES_128_GCM_SHA256, TLS_ECDHE_RSA_WITH_AES_256_GCM_SHA384, TLS_RSA_WITH_AES_256_GCM_SHA384 };
static const uint16_t GROUPS[] = { 23, 24, 25, 29 };   // secp256r1, secp384r1, secp521r1, x25519

static Plan c07_gen(uint64_t seed, int tier, uint64_t index) {
    (void) tier; (void) index;
    Rng r(seed);
    Plan p;
    bool dtls = r.chance(1, 5);
    p.cfg["dtls"] = dtls;
    if (dtls) { p.cfg["vers_c"] = (int64_t) ((1 + r.below(3)) << 3); p.cfg["vers_s"] = (int64_t) ((1 + r.below(3)) << 3); }
    else { p.cfg["vers_c"] = (int64_t) (1 + r.below(7)); p.cfg["vers_s"] = (int64_t) (1 + r.below(7)); }
    // the client's suite offer: a subset of the RSA-identity pool (+ the three TLS 1.3 suites when it enables 1.3)
    int ns = 1 + (int) r.below(5); int k = 1;
    for (int i = 0; i < ns; i++) { p.cfg[k == 1 ? std::string("suite") : "suite" + std::to_string(k)] = POOL12[r.below(8)]; k++; }
    if ((p.get("vers_c") & 4) && !dtls) { int n13 = 1 + (int) r.below(3); for (int i = 0; i < n13 && k <= 6; i++) { p.cfg["suite" + std::to_string(k)] = all_tls13_suites()[(r.below(3) + (uint64_t) i) % 3]; k++; } }
    p.cfg["sid_kind"] = KK_RSA2048;
    // group lists without duplicates (a duplicated group is an application error, not explored), key shares <= groups
    if (r.chance(1, 3)) { int n = 1 + (int) r.below(3); int st = (int) r.below(4); for (int i = 0; i < n; i++) { p.cfg["grp_c" + std::to_string(i)] = GROUPS[(st + i) % 4]; } p.cfg["key_shares"] = 1 + (int64_t) r.below((uint64_t) (n > 2 ? 2 : n)); }
    if (r.chance(1, 3)) { int n = 1 + (int) r.below(3); int st = (int) r.below(4); for (int i = 0; i < n; i++) { p.cfg["grp_s" + std::to_string(i)] = GROUPS[(st + i) % 4]; } }
    // per-session signature-scheme lists (TLS 1.3 CertificateVerify of an RSA identity: rsa_pss_rsae_sha256/384/512), drawn only when both sides enable TLS 1.3
    if (!dtls && (p.get("vers_c") & 4) && (p.get("vers_s") & 4) && r.chance(1, 3)) {
        static const uint16_t PSS[] = { 0x0804, 0x0805, 0x0806 };
        for (int side = 0; side < 2; side++) {
            if (!r.chance(2, 3)) { continue; }
            int n = 1 + (int) r.below(3), st = (int) r.below(3);
            for (int i = 0; i < n; i++) { p.cfg[std::string(side ? "sig_s" : "sig_c") + std::to_string(i)] = PSS[(st + i) % 3]; }
            // the TLS <= 1.2 list members a mixed-version pair would need are left out on purpose: those runs negotiate 1.3 or fail
        }
        if (r.chance(1, 3)) { p.cfg["cauth"] = KK_RSA2048; }
    }
    if (r.chance(1, 4)) {
        // the server application disables / re-enables suites for this session: ops over the client's offered suites
        int nops = 1 + (int) r.below(6);
        for (int i = 0; i < nops; i++) {
            int which = 1 + (int) r.below((uint64_t) (k - 1));
            uint16_t su = (uint16_t) p.get(which == 1 ? std::string("suite") : "suite" + std::to_string(which));
            p.cfg["dsq" + std::to_string(i)] = (int64_t) su * 2 + (r.chance(1, 3) ? 1 : 0);
        }
    }
    if (r.chance(1, 6)) { p.cfg["resdis"] = 1; if (r.chance(1, 2)) { p.cfg["tickets"] = 1; } }
    else if (r.chance(1, 8)) { p.cfg["reoffer"] = 1; if (r.chance(1, 2)) { p.cfg["tickets"] = 1; } }
    else if (r.chance(1, 8)) { p.cfg["reems"] = 1; p.cfg["ems_c"] = -1; if (r.chance(1, 2)) { p.cfg["tickets"] = 1; } }
    if (r.chance(1, 5)) { p.cfg["ems_c"] = -1; }
    if (r.chance(1, 6)) { p.cfg["ems_s"] = 1; }
    if (r.chance(1, 4)) { p.cfg["fallback"] = 1; }
    if (r.chance(3, 5)) { p.ops.push_back(Op("rewrite", (int64_t) (1 + r.below(RW_N - 1)), (int64_t) r.below(1000))); }
    p.ops.push_back(Op("send", 0, 100)); p.ops.push_back(Op("send", 1, 100));
    return p;
}

// exhaustive over version sets (TLS: 7 x 7 non-empty subsets, DTLS: 3 x 3), with and without the fallback SCSV
static std::vector<Plan> c07_fixed(int tier) {
    (void) tier;
    std::vector<Plan> v;
    for (int vc = 1; vc < 8; vc++) { for (int vs = 1; vs < 8; vs++) { for (int fb = 0; fb < 2; fb++) {
        Plan p; p.seed = 70000 + (uint64_t) ((vc * 8 + vs) * 2 + fb);
        p.cfg["dtls"] = 0; p.cfg["vers_c"] = vc; p.cfg["vers_s"] = vs; p.cfg["sid_kind"] = KK_RSA2048; p.cfg["fallback"] = fb;
        p.cfg["suite"] = TLS_RSA_WITH_AES_128_CBC_SHA; p.cfg["suite2"] = TLS_ECDHE_RSA_WITH_AES_128_GCM_SHA256; if (vc & 4) { p.cfg["suite3"] = TLS_AES_128_GCM_SHA256; }
        p.ops.push_back(Op("send", 0, 50)); p.ops.push_back(Op("send", 1, 50));
        v.push_back(p);
    } } }
    for (int vc = 1; vc < 4; vc++) { for (int vs = 1; vs < 4; vs++) {
        Plan p; p.seed = 71000 + (uint64_t) (vc * 4 + vs);
        p.cfg["dtls"] = 1; p.cfg["vers_c"] = vc << 3; p.cfg["vers_s"] = vs << 3; p.cfg["sid_kind"] = KK_RSA2048; p.cfg["suite"] = TLS_RSA_WITH_AES_128_CBC_SHA;
        p.ops.push_back(Op("send", 0, 50)); p.ops.push_back(Op("send", 1, 50));
        v.push_back(p);
    } }
    // resumption on a server session that has the original suite disabled: session id, ticket, TLS 1.3 PSK
    for (int fam = 0; fam < 3; fam++) { for (int tk = 0; tk < 2; tk++) { for (int two = 0; two < 2; two++) {
        Plan p; p.seed = 78000 + (uint64_t) ((fam * 2 + tk) * 2 + two);
        p.cfg["dtls"] = 0; p.cfg["vers_c"] = fam == 2 ? 4 : (fam ? 2 : 1); p.cfg["vers_s"] = p.cfg["vers_c"]; p.cfg["sid_kind"] = KK_RSA2048; p.cfg["resdis"] = 1; p.cfg["tickets"] = tk;
        p.cfg["suite"] = fam == 2 ? TLS_AES_128_GCM_SHA256 : TLS_RSA_WITH_AES_128_CBC_SHA;
        if (two) { p.cfg["suite2"] = fam == 2 ? TLS_AES_256_GCM_SHA384 : TLS_RSA_WITH_AES_256_CBC_SHA; }
        p.ops.push_back(Op("send", 0, 50)); p.ops.push_back(Op("send", 1, 50));
        v.push_back(p);
    } } }
    // a session made without extended_master_secret offered to a server session that requires it: session id and ticket, TLS 1.1/1.2 and DTLS
    for (int fam = 0; fam < 3; fam++) { for (int tk = 0; tk < 2; tk++) {
        Plan p; p.seed = 78700 + (uint64_t) (fam * 2 + tk);
        p.cfg["dtls"] = fam == 2; p.cfg["vers_c"] = fam == 2 ? 16 : (fam ? 2 : 1); p.cfg["vers_s"] = p.cfg["vers_c"]; p.cfg["sid_kind"] = KK_RSA2048; p.cfg["reems"] = 1; p.cfg["ems_c"] = -1; p.cfg["tickets"] = tk;
        p.cfg["suite"] = TLS_RSA_WITH_AES_128_CBC_SHA;
        p.ops.push_back(Op("send", 0, 50)); p.ops.push_back(Op("send", 1, 50));
        v.push_back(p);
    } }
    // resumption offered together with a DIFFERENT suite list than the original connection used: session id, ticket, TLS 1.3 PSK
    for (int fam = 0; fam < 3; fam++) { for (int tk = 0; tk < 2; tk++) { for (int su = 0; su < 2; su++) {
        Plan p; p.seed = 78500 + (uint64_t) ((fam * 2 + tk) * 2 + su);
        p.cfg["dtls"] = 0; p.cfg["vers_c"] = fam == 2 ? 4 : (fam ? 2 : 1); p.cfg["vers_s"] = p.cfg["vers_c"]; p.cfg["sid_kind"] = KK_RSA2048; p.cfg["reoffer"] = 1; p.cfg["tickets"] = tk;
        p.cfg["suite"] = fam == 2 ? (su ? TLS_CHACHA20_POLY1305_SHA256 : TLS_AES_128_GCM_SHA256) : fam ? (su ? TLS_RSA_WITH_AES_128_GCM_SHA256 : TLS_RSA_WITH_AES_128_CBC_SHA256) : (su ? TLS_RSA_WITH_AES_256_CBC_SHA : TLS_RSA_WITH_AES_128_CBC_SHA);
        p.ops.push_back(Op("send", 0, 50)); p.ops.push_back(Op("send", 1, 50));
        v.push_back(p);
    } } }
    // TLS 1.1 / 1.2 ECDHE-RSA: every pair of non-empty subsets of {P-256, P-384, P-521} as client and server curve lists (and "no list")
    {
        static const uint16_t C3[] = { 23, 24, 25 };
        for (int sc = 0; sc < 8; sc++) { for (int ss = 0; ss < 8; ss++) { for (int ver12 = 0; ver12 < 2; ver12++) {
            Plan p; p.seed = 77000 + (uint64_t) ((sc * 8 + ss) * 2 + ver12);
            p.cfg["dtls"] = 0; p.cfg["vers_c"] = ver12 ? 2 : 1; p.cfg["vers_s"] = ver12 ? 2 : 1; p.cfg["sid_kind"] = KK_RSA2048; p.cfg["suite"] = TLS_ECDHE_RSA_WITH_AES_128_CBC_SHA;
            int k = 0; for (int i = 0; i < 3; i++) { if (sc >> i & 1) { p.cfg["grp_c" + std::to_string(k++)] = C3[(i + sc) % 3]; } }
            k = 0; for (int i = 0; i < 3; i++) { if (ss >> i & 1) { p.cfg["grp_s" + std::to_string(k++)] = C3[(i + ss) % 3]; } }
            p.ops.push_back(Op("send", 0, 50)); p.ops.push_back(Op("send", 1, 50));
            v.push_back(p);
        } } }
    }
    // TLS 1.2 ECDHE-RSA: per-side signature algorithm lists over rsa_pkcs1_sha256/384/512 (the client's always contains sha256: the test
    // certificates are sha256WithRSA and the TLS 1.2 list also governs certificate signatures)
    {
        static const uint16_t P1[] = { 0x0401, 0x0501, 0x0601 };
        std::vector<std::vector<uint16_t>> cl = { {}, { 0x0401 }, { 0x0401, 0x0501 }, { 0x0501, 0x0401 }, { 0x0601, 0x0401 }, { 0x0401, 0x0501, 0x0601 } };
        std::vector<std::vector<uint16_t>> sl; sl.push_back({});
        for (int st = 0; st < 3; st++) { for (int n = 1; n <= 3; n++) { std::vector<uint16_t> l; for (int i = 0; i < n; i++) { l.push_back(P1[(st + i) % 3]); } sl.push_back(l); } }
        for (size_t a = 0; a < cl.size(); a++) { for (size_t b = 0; b < sl.size(); b++) { for (int d = 0; d < 2; d++) { for (int ca = 0; ca < 2; ca++) {
            if (ca && ((a + b + (size_t) d) % 2)) { continue; }      // with client authentication (the client's CertificateVerify algorithm): half of the grid
            Plan p; p.seed = 76000 + (uint64_t) ((a * 16 + b) * 2 + (size_t) d) + (uint64_t) ca * 500;
            p.cfg["dtls"] = d; p.cfg["vers_c"] = d ? 16 : 2; p.cfg["vers_s"] = d ? 16 : 2; p.cfg["sid_kind"] = KK_RSA2048; p.cfg["suite"] = TLS_ECDHE_RSA_WITH_AES_128_GCM_SHA256;
            if (ca) { p.cfg["cauth"] = KK_RSA2048; }
            for (size_t i = 0; i < cl[a].size(); i++) { p.cfg["sig_c" + std::to_string(i)] = cl[a][i]; }
            for (size_t i = 0; i < sl[b].size(); i++) { p.cfg["sig_s" + std::to_string(i)] = sl[b][i]; }
            p.ops.push_back(Op("send", 0, 50)); p.ops.push_back(Op("send", 1, 50));
            v.push_back(p);
        } } } }
    }
    // per-session suite status sequences on the server: disable X, disable Y, re-enable X (and permutations with a third suite), the client
    // preferring each suite in turn - the suite in force must never be one that is disabled at the end of the sequence
    {
        static const uint16_t S12[] = { TLS_RSA_WITH_AES_128_CBC_SHA, TLS_RSA_WITH_AES_256_CBC_SHA, TLS_RSA_WITH_AES_128_GCM_SHA256 };
        static const uint16_t S13[] = { TLS_AES_128_GCM_SHA256, TLS_AES_256_GCM_SHA384, TLS_CHACHA20_POLY1305_SHA256 };
        static const int SEQ[][4][2] = { { {0,0},{1,0},{0,1},{-1,0} }, { {1,0},{0,0},{1,1},{-1,0} }, { {0,0},{1,0},{2,0},{0,1} }, { {0,0},{1,0},{0,1},{0,0} }, { {2,0},{1,0},{2,1},{-1,0} }, { {0,0},{0,1},{1,0},{-1,0} } };
        for (int fam = 0; fam < 2; fam++) { for (int sq = 0; sq < 6; sq++) { for (int first = 0; first < 3; first++) { for (int only = 0; only < 2; only++) {
            Plan p; p.seed = 75000 + (uint64_t) (((fam * 6 + sq) * 3 + first) * 2 + only);
            const uint16_t *S = fam ? S13 : S12;
            p.cfg["dtls"] = 0; p.cfg["vers_c"] = fam ? 4 : 2; p.cfg["vers_s"] = fam ? 4 : 2; p.cfg["sid_kind"] = KK_RSA2048;
            p.cfg["suite"] = S[first]; if (!only) { p.cfg["suite2"] = S[(first + 1) % 3]; p.cfg["suite3"] = S[(first + 2) % 3]; }
            for (int i = 0; i < 4; i++) { if (SEQ[sq][i][0] >= 0) { p.cfg["dsq" + std::to_string(i)] = (int64_t) S[SEQ[sq][i][0]] * 2 + SEQ[sq][i][1]; } }
            p.ops.push_back(Op("send", 0, 50)); p.ops.push_back(Op("send", 1, 50));
            v.push_back(p);
        } } } }
    }
    // signature-scheme lists: every ordered non-empty list pair over the three RSA-PSS schemes (rotations of each subset), with and without client authentication
    {
        static const uint16_t PSS[] = { 0x0804, 0x0805, 0x0806 };
        std::vector<std::vector<uint16_t>> lists; lists.push_back({});
        for (int st = 0; st < 3; st++) { for (int n = 1; n <= 3; n++) { std::vector<uint16_t> l; for (int i = 0; i < n; i++) { l.push_back(PSS[(st + i) % 3]); } lists.push_back(l); } }
        for (size_t a = 0; a < lists.size(); a++) { for (size_t b = 0; b < lists.size(); b++) { for (int ca = 0; ca < 2; ca++) {
            if (ca && ((a + b) % 3)) { continue; }
            Plan p; p.seed = 74000 + (uint64_t) ((a * 16 + b) * 2 + (size_t) ca);
            p.cfg["dtls"] = 0; p.cfg["vers_c"] = 4; p.cfg["vers_s"] = 4; p.cfg["sid_kind"] = KK_RSA2048; p.cfg["suite"] = TLS_AES_128_GCM_SHA256;
            if (ca) { p.cfg["cauth"] = KK_RSA2048; }
            for (size_t i = 0; i < lists[a].size(); i++) { p.cfg["sig_c" + std::to_string(i)] = lists[a][i]; }
            for (size_t i = 0; i < lists[b].size(); i++) { p.cfg["sig_s" + std::to_string(i)] = lists[b][i]; }
            p.ops.push_back(Op("send", 0, 50)); p.ops.push_back(Op("send", 1, 50));
            v.push_back(p);
        } } }
    }
    // every single-field rewrite on a maximal configuration per version the pair would negotiate
    for (int top = 0; top < 3; top++) { for (int rw = 1; rw < RW_N; rw++) { for (int a = 0; a < 3; a++) {
        Plan p; p.seed = 72000 + (uint64_t) ((top * RW_N + rw) * 4 + a);
        p.cfg["dtls"] = 0; p.cfg["vers_c"] = 7 >> (2 - top); p.cfg["vers_s"] = 7; p.cfg["sid_kind"] = KK_RSA2048;
        p.cfg["suite"] = TLS_RSA_WITH_AES_128_CBC_SHA; p.cfg["suite2"] = TLS_ECDHE_RSA_WITH_AES_128_GCM_SHA256; p.cfg["suite3"] = TLS_RSA_WITH_AES_256_CBC_SHA; if (top == 2) { p.cfg["suite4"] = TLS_AES_128_GCM_SHA256; p.cfg["suite5"] = TLS_AES_256_GCM_SHA384; }
        p.ops.push_back(Op("rewrite", rw, a * 7 + 1));
        p.ops.push_back(Op("send", 0, 50)); p.ops.push_back(Op("send", 1, 50));
        v.push_back(p);
    } } }
    // TLS 1.3 group lists: every pair of non-empty subsets of two groups out of {P-256, P-384, P-521, X25519} plus "no list" on either side
    {
        static const int G[] = { 23, 24, 25, 29 };
        std::vector<std::vector<int> > lists; lists.push_back({});
        for (int a = 0; a < 4; a++) { lists.push_back({ G[a] }); for (int b = 0; b < 4; b++) { if (a != b) { lists.push_back({ G[a], G[b] }); } } }
        int n = 0;
        for (auto &lc : lists) { for (auto &ls : lists) {
            if ((n++ % 3) != 0 && !(lc.size() == 1 && ls.size() == 1)) { continue; }    // all single/single pairs, a third of the rest
            Plan p; p.seed = 73000 + (uint64_t) n;
            p.cfg["dtls"] = 0; p.cfg["vers_c"] = 4; p.cfg["vers_s"] = 4; p.cfg["sid_kind"] = KK_RSA2048; p.cfg["suite"] = TLS_AES_128_GCM_SHA256;
            for (size_t i = 0; i < lc.size(); i++) { p.cfg["grp_c" + std::to_string(i)] = lc[i]; } if (!lc.empty()) { p.cfg["key_shares"] = 1; }
            for (size_t i = 0; i < ls.size(); i++) { p.cfg["grp_s" + std::to_string(i)] = ls[i]; }
            p.ops.push_back(Op("send", 0, 50)); p.ops.push_back(Op("send", 1, 50));
            v.push_back(p);
        } }
    }
    return v;
}

static int top_bit(int64_t m) { int t = -1; for (int i = 0; i < 5; i++) { if (m >> i & 1) { t = i; } } return t; }

// signature scheme each node put into its TLS 1.3 CertificateVerify, read from the plaintext handed to the AEAD seal (seam probe)
struct SigCap { int scheme[4] = { -1, -1, -1, -1 }; };
static void c07_probe(const vsim_probe_t *p, void *arg) {
    SigCap *c = (SigCap *) arg;
    if ((p->kind == VSIM_PR_GCM_ENC || p->kind == VSIM_PR_CHACHA_ENC) && p->pt_len >= 8 && p->pt_head[0] == 15 && p->node >= 0 && p->node < 4 && c->scheme[p->node] < 0) {
        c->scheme[p->node] = p->pt_head[4] << 8 | p->pt_head[5];
    }
}

static RunResult c07_exec(const Plan &p) {
    RunResult res;
    vsim_run_reset(p.seed);
    sim_global_open();
    {
        PairCfg pc = paircfg_from_plan(p);
        pc.version = 0;
        bool dtls = p.get("dtls") != 0;
        int rw = RW_NONE; uint64_t rwa = 0;
        for (auto &op : p.ops) { if (op.k == "rewrite") { rw = (int) ((uint64_t) op.a % RW_N); rwa = (uint64_t) op.b; } }
        TlsWorld w;
        if (!w.setup(pc)) { res.harness_error = true; res.detail = "setup rc=" + std::to_string(w.setup_rc); }
        else {
            bool rewritten = false; int seen_ch = 0;
            int ske_curve = -1;      // TLS <= 1.2 ServerKeyExchange (ECDHE): the named curve the server chose, read off the wire
            int cv_sigalg = -1; bool c_ccs_seen = false;     // TLS 1.2 client CertificateVerify: the algorithm the client signed with, read off the wire
            int ske_sigalg = -1;     // TLS 1.2 ServerKeyExchange (ECDHE): the SignatureAndHashAlgorithm the server signed with, read off the wire
            w.filter = [&](Record &r, std::vector<Bytes> &out) {
                Bytes raw = r.raw;
                size_t hh = dtls ? 12 : 4;
                if (r.type == 22 && r.dir == DIR_S2C && (dtls ? r.epoch == 0 : true) && r.body_len() > hh + 8 && r.raw[r.hdr] == 12 && ske_sigalg < 0) {
                    const unsigned char *b = r.raw.data() + r.hdr + hh; size_t n = r.body_len() - hh;
                    if (b[0] == 3) { ske_curve = b[1] << 8 | b[2]; }
                    if (b[0] == 3 && n > 4 + (size_t) b[3] + 2) { size_t o = 4 + (size_t) b[3]; ske_sigalg = b[o] << 8 | b[o + 1]; }   // named_curve ECParameters + point, then the algorithm pair
                }
                // TLS 1.2 client CertificateVerify (sent in the clear, before the client's ChangeCipherSpec): the algorithm pair leads the message
                if (r.type == 22 && r.dir == DIR_C2S && (dtls ? r.epoch == 0 : !c_ccs_seen) && r.body_len() > hh + 4 && r.raw[r.hdr] == 15 && cv_sigalg < 0) {
                    const unsigned char *b = r.raw.data() + r.hdr + hh; cv_sigalg = b[0] << 8 | b[1];
                }
                if (r.type == 20 && r.dir == DIR_C2S) { c_ccs_seen = true; }
                bool prot = dtls ? r.epoch > 0 : false;
                if (rw != RW_NONE && !rewritten && r.type == 22 && !prot && r.body_len() > hh) {
                    const unsigned char *b = r.raw.data() + r.hdr;
                    int ht = b[0]; size_t hl = (size_t) b[1] << 16 | (size_t) b[2] << 8 | b[3];
                    bool is_ch = ht == 1 && r.dir == DIR_C2S, is_sh = ht == 2 && r.dir == DIR_S2C;
                    bool whole = hl + hh == r.body_len();   // a single unfragmented message in the record
                    if (is_ch) { seen_ch++; }
                    bool target_ch = rw < RW_SH_VERSION;
                    // DTLS: only the cookie-bearing ClientHello is covered by the Finished hash
                    if (whole && ((target_ch && is_ch && (!dtls || seen_ch == 2)) || (!target_ch && is_sh))) {
                        Hello h;
                        if (parse_hello(Bytes(b + hh, b + hh + hl), is_sh, dtls, h) && rewrite(h, rw, rwa)) {
                            Bytes nb = build_hello(h);
                            Bytes msg(b, b + hh); msg[1] = (unsigned char) (nb.size() >> 16); msg[2] = (unsigned char) (nb.size() >> 8); msg[3] = (unsigned char) nb.size();
                            if (dtls) { msg[9] = msg[1]; msg[10] = msg[2]; msg[11] = msg[3]; }
                            msg.insert(msg.end(), nb.begin(), nb.end());
                            raw = make_record(22, r.ver, msg, dtls, r.epoch, r.seq);
                            rewritten = true;
                        }
                    }
                }
                out.push_back(raw);
            };
            SigCap sigcap; vsim_probe_set(c07_probe, &sigcap);
            if (!w.connect()) {
                // a configuration the API itself refuses (e.g. TLS 1.3 enabled without a 1.3 suite): nothing to judge
                res.count("config_refused_by_api");
            } else {
                // per-session cipher suite status on the server session (matrixSslSetCipherSuiteEnabledStatus), applied before the first byte arrives;
                // the model is a plain set
                std::set<uint32_t> srv_disabled;
                for (int i = 0; i < 8; i++) {
                    int64_t o = p.get("dsq" + std::to_string(i), -1);
                    if (o < 0) { continue; }
                    uint16_t su = (uint16_t) (o >> 1); bool enable = (o & 1) != 0;
                    vsim_set_node(NODE_SERVER);
                    int32_t rc = matrixSslSetCipherSuiteEnabledStatus(w.srv->ssl, su, enable ? PS_TRUE : PS_FALSE);
                    vsim_set_node(NODE_HARNESS);
                    if (rc == PS_SUCCESS) { if (enable) { srv_disabled.erase(su); } else { srv_disabled.insert(su); } res.count(enable ? "suite_status.enabled" : "suite_status.disabled"); }
                }
                w.handshake();
                bool cc = w.cli->is_complete(), sc = w.srv->is_complete();
                int64_t vc = p.get("vers_c"), vs = p.get("vers_s");
                // DTLS is selected through versionFlag: enabling DTLS 1.2 always enables DTLS 1.0 as well
                if (dtls) { vc = (vc & 16) ? 24 : 8; vs = (vs & 16) ? 24 : 8; }
                // TLS 1.3 is only offered by the client if it also offers a TLS 1.3 suite
                bool c13suite = false; for (auto s : pc.suites) { if (suite_is_tls13(s)) { c13suite = true; } }
                int64_t vc_eff = (vc & 4) && !c13suite ? (vc & ~4LL) : vc;
                int64_t common = vc_eff & vs;
                static const uint32_t V[] = { v_tls_1_1, v_tls_1_2, v_tls_1_3, v_dtls_1_0, v_dtls_1_2 };
                std::string ctx = std::string(dtls ? "dtls" : "tls") + ",c" + std::to_string(vc) + ",s" + std::to_string(vs);
                res.count(std::string("outcome.") + (cc && sc ? "completed" : "refused") + (rewritten ? ".rewritten" : ".honest"));
                if (rewritten) { res.count(std::string("fault.") + RW_NAME[rw]); res.states.push_back(std::string(RW_NAME[rw]) + "," + ctx); }
                if (cc || sc) {
                    uint32_t nvc = w.cli->negotiated_version() & 0xffffff, nvs = w.srv->negotiated_version() & 0xffffff;
                    uint32_t nsc = w.cli->negotiated_suite(), nss = w.srv->negotiated_suite();
                    int vi = -1; for (int i = 0; i < 5; i++) { if (V[i] == (sc ? nvs : nvc)) { vi = i; } }
                    if (rewritten) {
                        res.violate("rewrite_undetected", std::string(RW_NAME[rw]) + "," + (dtls ? "dtls" : ver_name(sc ? nvs : nvc)), std::string("a hello field covered by the Finished hash was rewritten in transit (") + RW_NAME[rw] + ") and " + (cc && sc ? "both ends" : cc ? "the client" : "the server") + " still completed the handshake");
                    } else if (cc && sc) {
                        if (nvc != nvs) { res.violate("endpoints_disagree", "version", "client and server report different versions"); }
                        else if (nsc != nss) { res.violate("endpoints_disagree", "suite", "client and server report different cipher suites"); }
                        else if (vi < 0 || !(vc_eff >> vi & 1) || !(vs >> vi & 1)) { res.violate("param_not_mutual", "version," + ctx, std::string("negotiated ") + ver_name(nvc) + " is not enabled on both sides (client set " + std::to_string(vc) + ", server set " + std::to_string(vs) + ")"); }
                        else if (vi != top_bit(common)) { res.violate("not_highest_version", ctx, std::string("negotiated ") + ver_name(nvc) + " although a higher version is enabled on both sides (default priorities)"); }
                        else {
                            bool offered = pc.suites.empty(); for (auto s : pc.suites) { if (s == nsc) { offered = true; } }
                            if (srv_disabled.count(nsc)) { res.violate("param_not_mutual", "suite_disabled_on_server_session", std::string("negotiated suite ") + suite_name((uint16_t) nsc) + " although the server application disabled it for this session (and did not re-enable it)"); }
                            else if (!offered) { res.violate("param_not_mutual", "suite," + ctx, std::string("negotiated suite ") + suite_name((uint16_t) nsc) + " was not offered by the client"); }
                        }
                        if (!res.violation && nvc == v_tls_1_3) {
                            // key-exchange group: one both sides enabled (an endpoint without an explicit list enables the four defaults)
                            int gc = vsim_peek_tls13_group((const struct ssl *) w.cli->ssl), gs = vsim_peek_tls13_group((const struct ssl *) w.srv->ssl);
                            auto enabled = [](const std::vector<uint16_t> &l, int g) { if (l.empty()) { return g == 23 || g == 24 || g == 25 || g == 29; } for (auto x : l) { if (x == g) { return true; } } return false; };
                            std::string gl = "c["; for (auto x : pc.groups_c) { gl += std::to_string(x) + " "; } gl += "] s["; for (auto x : pc.groups_s) { gl += std::to_string(x) + " "; } gl += "]";
                            if (gc != gs) { res.violate("endpoints_disagree", "group", "client reports group " + std::to_string(gc) + ", server " + std::to_string(gs)); }
                            else if (!enabled(pc.groups_c, gc)) { res.violate("group_not_mutual", "client_never_enabled", "negotiated group " + std::to_string(gc) + " is not in the client's list " + gl); }
                            else if (!enabled(pc.groups_s, gs)) { res.violate("group_not_mutual", "server_never_enabled", "negotiated group " + std::to_string(gs) + " is not in the server's list " + gl); }
                            else { res.count("group." + std::to_string(gc)); }
                        }
                        if (!res.violation && nvc == v_tls_1_3) {
                            // signature scheme of each CertificateVerify: enabled (per-session list, or the build default when none was set) by signer and verifier
                            auto sig_enabled = [](const std::vector<uint16_t> &l, int a) { if (l.empty()) { return true; } for (auto x : l) { if (x == a) { return true; } } return false; };
                            std::string sl = "c["; for (auto x : pc.sigalgs_c) { sl += std::to_string(x) + " "; } sl += "] s["; for (auto x : pc.sigalgs_s) { sl += std::to_string(x) + " "; } sl += "]";
                            int ss = sigcap.scheme[NODE_SERVER], sc2 = sigcap.scheme[NODE_CLIENT];
                            if (ss >= 0) {
                                res.count("sigalg.server." + std::to_string(ss));
                                if (!sig_enabled(pc.sigalgs_s, ss)) { res.violate("sigalg_not_mutual", "server_signed_with_one_it_never_enabled", "the server's CertificateVerify uses signature scheme " + std::to_string(ss) + ", which is not in the server's own list " + sl); }
                                else if (!sig_enabled(pc.sigalgs_c, ss)) { res.violate("sigalg_not_mutual", "client_accepted_one_it_never_enabled", "the server's CertificateVerify uses signature scheme " + std::to_string(ss) + ", which the client did not enable " + sl); }
                            }
                            if (!res.violation && sc2 >= 0) {
                                res.count("sigalg.client." + std::to_string(sc2));
                                if (!sig_enabled(pc.sigalgs_c, sc2)) { res.violate("sigalg_not_mutual", "client_signed_with_one_it_never_enabled", "the client's CertificateVerify uses signature scheme " + std::to_string(sc2) + ", which is not in the client's own list " + sl); }
                                else if (!sig_enabled(pc.sigalgs_s, sc2)) { res.violate("sigalg_not_mutual", "server_accepted_one_it_never_enabled", "the client's CertificateVerify uses signature scheme " + std::to_string(sc2) + ", which the server did not enable " + sl); }
                            }
                        }
                        if (!res.violation && nvc != v_tls_1_3 && ske_curve >= 0) {
                            // TLS <= 1.2 ECDHE: the curve of the ServerKeyExchange is one both sessions enabled (and so one the client offered)
                            auto en = [](const std::vector<uint16_t> &l, int g) { bool nist = false; for (auto x : l) { if (x >= 23 && x <= 25) { nist = true; } } if (!nist) { return g == 23 || g == 24 || g == 25; } /* no TLS <= 1.2 curve restriction configured */ for (auto x : l) { if (x == g) { return true; } } return false; };
                            std::string gl = "c["; for (auto x : pc.groups_c) { gl += std::to_string(x) + " "; } gl += "] s["; for (auto x : pc.groups_s) { gl += std::to_string(x) + " "; } gl += "]";
                            res.count("group12." + std::to_string(ske_curve));
                            if (!en(pc.groups_c, ske_curve)) { res.violate("group_not_mutual", "tls<=1.2_client_never_enabled", "ECDHE ran on curve " + std::to_string(ske_curve) + ", which the client did not enable / offer " + gl); }
                            else if (!en(pc.groups_s, ske_curve)) { res.violate("group_not_mutual", "tls<=1.2_server_never_enabled", "ECDHE ran on curve " + std::to_string(ske_curve) + ", which the server session did not enable " + gl); }
                        }
                        if (!res.violation && nvc == v_tls_1_2 && ske_sigalg >= 0) {
                            auto sig_enabled12 = [](const std::vector<uint16_t> &l, int a) { if (l.empty()) { return true; } for (auto x : l) { if (x == a) { return true; } } return false; };
                            std::string sl = "c["; for (auto x : pc.sigalgs_c) { sl += std::to_string(x) + " "; } sl += "] s["; for (auto x : pc.sigalgs_s) { sl += std::to_string(x) + " "; } sl += "]";
                            res.count("sigalg12.server_key_exchange." + std::to_string(ske_sigalg));
                            if (!sig_enabled12(pc.sigalgs_c, ske_sigalg)) { res.violate("sigalg_not_mutual", "tls1.2_client_accepted_one_it_never_offered", "the ServerKeyExchange is signed with algorithm " + std::to_string(ske_sigalg) + ", which the client did not offer " + sl); }
                            else if (!sig_enabled12(pc.sigalgs_s, ske_sigalg)) { res.violate("sigalg_not_mutual", "tls1.2_server_signed_with_one_it_never_enabled", "the ServerKeyExchange is signed with algorithm " + std::to_string(ske_sigalg) + ", which is not in the server's own list " + sl); }
                        }
                        if (!res.violation && nvc == v_tls_1_2 && cv_sigalg >= 0) {
                            // the verifier's (server session's) list decides what it may accept; the signer's own list is counted only: in TLS 1.2 that
                            // list is what the client offers the server for the SERVER's signatures, and the client picks its own from the CertificateRequest
                            auto sig_enabled12 = [](const std::vector<uint16_t> &l, int a) { if (l.empty()) { return true; } for (auto x : l) { if (x == a) { return true; } } return false; };
                            std::string sl = "c["; for (auto x : pc.sigalgs_c) { sl += std::to_string(x) + " "; } sl += "] s["; for (auto x : pc.sigalgs_s) { sl += std::to_string(x) + " "; } sl += "]";
                            res.count("sigalg12.certificate_verify." + std::to_string(cv_sigalg));
                            if (!sig_enabled12(pc.sigalgs_s, cv_sigalg)) { res.violate("sigalg_not_mutual", "tls1.2_server_accepted_client_signature_it_never_enabled", "the client's CertificateVerify is signed with algorithm " + std::to_string(cv_sigalg) + ", which is not in the server session's list " + sl); }
                            else if (!sig_enabled12(pc.sigalgs_c, cv_sigalg)) { res.count("probe.tls12_client_signed_outside_its_own_list"); }
                        }
                        if (!res.violation && p.get("fallback") && top_bit(vs) > top_bit(vc_eff)) {
                            res.violate("fallback_accepted", ctx, "the ClientHello carried TLS_FALLBACK_SCSV, the server supports a higher version than the client offered, and the handshake completed");
                        }
                        if (!res.violation && nvc != v_tls_1_3) {
                            // extended master secret (a per-session option on both sides): required by the server session => in force; disabled by the client => not in force
                            int es = vsim_peek_ems((const struct ssl *) w.srv->ssl), ec = vsim_peek_ems((const struct ssl *) w.cli->ssl);
                            res.count(std::string("ems.") + (es ? "in_force" : "not_in_force"));
                            if (pc.ems_s > 0 && !es) { res.violate("param_not_mutual", "extended_master_secret_required_by_server_but_not_in_force", "the server session requires extended_master_secret and the handshake completed without it"); }
                            else if (pc.ems_c < 0 && (es || ec)) { res.violate("param_not_mutual", "extended_master_secret_disabled_by_client_but_in_force", "the client session disabled extended_master_secret and the handshake completed with it"); }
                            else if (es != ec) { res.violate("endpoints_disagree", "extended_master_secret", "client and server disagree on extended_master_secret use"); }
                        }
                        // identical keys: data round-trips
                        if (!res.violation) {
                            Bytes a = tagged_payload(0, 1, 60), b = tagged_payload(1, 2, 60);
                            w.cli->app_send(a.data(), a.size()); w.srv->app_send(b.data(), b.size()); w.pump();
                            Bytes da, db; for (auto &c : w.srv->delivered) { da.insert(da.end(), c.begin(), c.end()); } for (auto &c : w.cli->delivered) { db.insert(db.end(), c.begin(), c.end()); }
                            if (da != a || db != b) { res.violate("endpoints_disagree", "keys," + ctx, "handshake completed on both ends but application data does not round-trip"); }
                        }
                    } else if (!rewritten && (cc != sc)) { res.count("probe.one_sided_completion"); }
                } else if (!rewritten && common != 0 && !p.get("fallback")) {
                    res.count("probe.refused_despite_common_version");
                }
                // second connection (cfg "resdis"): the client resumes, but THIS server session has the first connection's suite disabled
                // (matrixSslSetCipherSuiteEnabledStatus before the first byte): it may do a full handshake on another suite or fail, not resume
                if (!res.violation && p.get("resdis") && cc && sc && !rewritten) {
                    uint32_t suite1 = w.srv->negotiated_suite();
                    w.cli->app_close(); w.pump();
                    w.filter = nullptr;
                    if (w.connect(true)) {
                        vsim_set_node(NODE_SERVER);
                        int32_t drc = matrixSslSetCipherSuiteEnabledStatus(w.srv->ssl, (psCipher16_t) suite1, PS_FALSE);
                        vsim_set_node(NODE_HARNESS);
                        w.handshake();
                        bool c2 = w.cli->is_complete() && w.srv->is_complete();
                        res.count(std::string("resdis.") + (drc == PS_SUCCESS ? (c2 ? (w.srv->is_resumed() ? "completed_resumed" : "completed_full") : "refused") : "api_refused"));
                        if (drc == PS_SUCCESS && c2 && w.srv->negotiated_suite() == suite1) {
                            res.violate("param_not_mutual", "suite_disabled_on_server_session,resumed", std::string("second connection ") + (w.srv->is_resumed() ? "resumed" : "completed") + " on suite " +
                                        suite_name((uint16_t) suite1) + " although the server application had disabled that suite for this session");
                        }
                    }
                }
                // second connection (cfg "reems"): the first one ran WITHOUT extended_master_secret (client option); the client comes back with that session /
                // ticket, still without the extension, to a server session of the same process that REQUIRES extended_master_secret
                if (!res.violation && p.get("reems") && cc && sc && !rewritten && pc.ems_c < 0 && pc.ems_s <= 0 && (w.cli->negotiated_version() & 0xffffff) != v_tls_1_3) {
                    w.cli->app_close(); w.pump();
                    w.filter = nullptr;
                    w.pc.ems_s = 1;
                    if (w.connect(true)) {
                        w.handshake();
                        bool c2 = w.cli->is_complete() && w.srv->is_complete();
                        res.count(std::string("reems.") + (c2 ? (w.srv->is_resumed() ? "completed_resumed" : "completed_full") : "refused"));
                        if (w.srv->is_complete() && !vsim_peek_ems((const struct ssl *) w.srv->ssl)) {
                            res.violate("param_not_mutual", "extended_master_secret_required_by_server_but_not_in_force,second_connection", std::string("second connection ") + (w.srv->is_resumed() ? "resumed" : "completed") +
                                        " without extended_master_secret on a server session that requires it");
                        }
                    }
                }
                // second connection (cfg "reoffer"): the client comes back with its stored session / ticket / PSK but now offers ANOTHER suite only
                // (same PRF hash, so that a TLS 1.3 PSK stays usable): whatever the server does, the suite in force must be one the client offered
                if (!res.violation && p.get("reoffer") && cc && sc && !rewritten) {
                    uint32_t suite1 = w.srv->negotiated_suite();
                    uint16_t other = 0;
                    if (suite1 == TLS_AES_128_GCM_SHA256) { other = TLS_CHACHA20_POLY1305_SHA256; } else if (suite1 == TLS_CHACHA20_POLY1305_SHA256) { other = TLS_AES_128_GCM_SHA256; }
                    else if (suite1 == TLS_RSA_WITH_AES_128_CBC_SHA) { other = TLS_RSA_WITH_AES_256_CBC_SHA; } else if (suite1 == TLS_RSA_WITH_AES_256_CBC_SHA) { other = TLS_RSA_WITH_AES_128_CBC_SHA; }
                    else if (suite1 == TLS_RSA_WITH_AES_128_GCM_SHA256) { other = TLS_RSA_WITH_AES_128_CBC_SHA256; } else if (suite1 == TLS_RSA_WITH_AES_128_CBC_SHA256) { other = TLS_RSA_WITH_AES_128_GCM_SHA256; }
                    if (other) {
                        w.cli->app_close(); w.pump();
                        w.filter = nullptr;
                        w.pc.suites = { other };
                        if (w.connect(true)) {
                            w.handshake();
                            bool c2 = w.cli->is_complete() && w.srv->is_complete();
                            res.count(std::string("reoffer.") + (c2 ? (w.srv->is_resumed() ? "completed_resumed" : "completed_full") : "refused"));
                            uint32_t s2c = w.cli->negotiated_suite(), s2s = w.srv->negotiated_suite();
                            if (c2 && (s2c != other || s2s != other)) {
                                res.violate("param_not_mutual", "suite_not_offered_in_this_handshake,second_connection", std::string("second connection ") + (w.srv->is_resumed() ? "resumed" : "completed") + " on suite " +
                                            suite_name((uint16_t) s2s) + " / " + suite_name((uint16_t) s2c) + " although the client offered only " + suite_name(other) + " this time");
                            }
                        }
                    }
                }
                res.nontrivial = rewritten || (vc != vs) || p.get("fallback") != 0 || p.get("resdis") != 0 || p.get("reoffer") != 0 || p.get("reems") != 0;
                res.fingerprint = mix64(w.fingerprint(), (uint64_t) rw * 1000 + rwa);
            }
        }
        vsim_probe_set(nullptr, nullptr);
        w.teardown();
    }
    sim_global_close();
    return res;
}

static ModuleRegistrar reg({ "C07", "nego", "exploration",
    "two independently configured endpoints: version sets (fixed plans: all 49 pairs of non-empty TLS version subsets with and without TLS_FALLBACK_SCSV, all 9 DTLS pairs), client suite offers drawn from a pool (+TLS 1.3 suites), TLS 1.3 group lists and key-share counts (forces HelloRetryRequest), EMS disabled/required; "
    "man in the middle rewrites one well-formed field of the transcript-covered ClientHello or ServerHello (legacy version, suite list: drop/keep-one/reorder/add SCSV, supported_versions, groups, signature algorithms, EMS, session id, ServerHello version/suite/supported_versions/random sentinel bytes); "
    "small executable model: on completion the version is in both sets, offered, and the highest common one, the suite was offered, both ends report the same version and suite and exchange data, no rewritten hello leads to completion at either end, SCSV with a higher server version fails. "
    "non-trivial = the two configurations differ, SCSV was set, or a rewrite was applied; distinct = distinct history fingerprint",
    c07_gen, c07_exec, 2500, 60000, 75, 1200,
    { "core", "crypto", "matrixssl (version, suite, group, signature-algorithm negotiation; Finished; SCSV and downgrade-sentinel checks)" },
    { "transport", "man in the middle (own hello parser/serialiser)", "applications", "clock", "entropy", "allocator front-end" },
    { "DTLS: only the cookie-bearing ClientHello and the ServerHello are rewritten (the first ClientHello and HelloVerifyRequest are outside the Finished hash)", "only messages that fit one unfragmented record are rewritten" },
    "asan", c07_fixed, false });
