#include "proto.h"
#include "peek.h"
#include <deque>

struct Unit { Bytes b; bool tampered = false; std::string kind; bool is_mod = false; };
static std::deque<Unit> *g_q = nullptr;   // set while a ProtoRun is alive (single run per process at a time)

static const int PROTO_MAX_STEPS = 600;

ProtoRun::ProtoRun(const Plan &p) : plan(p), opr(derive(p.seed, "proto-ops")) {
    pc = paircfg_from_plan(p);
}
ProtoRun::~ProtoRun() { vsim_probe_set(nullptr, nullptr); g_q = nullptr; }

void ProtoRun::probe_cb(const vsim_probe_t *p, void *arg) {
    ProtoRun *self = (ProtoRun *) arg;
    self->probe_next = p->seq + 1;
    self->audit.on_probe(p);
    if ((p->kind == VSIM_PR_GCM_DEC || p->kind == VSIM_PR_CHACHA_DEC) && p->rc < 0 && (p->node == 1 || p->node == 2)) { self->obs.aead_fail[p->node - 1]++; }
    if (p->kind != VSIM_PR_GCM_ENC && p->kind != VSIM_PR_CHACHA_ENC && p->kind != VSIM_PR_CBC_ENC) { return; }
    if (self->obs.seals.size() > 20000) { return; }
    SealRec s;
    s.node = p->node; s.kind = p->kind; s.key_id = p->key_id; s.nonce.assign(p->nonce, p->nonce + p->nonce_len);
    s.aad = p->aad_digest; s.pt = p->pt_digest; s.pt_len = p->pt_len; s.inner_type = p->pt_tail[3]; s.hs_type = p->pt_head[0]; s.seq = p->seq; s.rc = p->rc;
    self->obs.seals.push_back(s);
}

void ProtoRun::note_tamper(int dir, const std::string &kind, bool is_mod) {
    if (!obs.tampered[dir]) {
        obs.tampered[dir] = true;
        MxEndpoint &r = w.peer(dir);
        obs.delivered_before_tamper[dir] = r.delivered.size();
        size_t n = 0; for (auto &c : r.delivered) { n += c.size(); }
        obs.delivered_bytes_before_tamper[dir] = n;
        obs.tamper_kind[dir] = kind;
        obs.tamper_hs_state[dir] = r.hs_state();
        obs.tamper_receiver_complete[dir] = r.alive() ? r.is_complete() : false;
        obs.tamper_is_modification[dir] = is_mod;
    }
}

void ProtoRun::after_event() {
    MxEndpoint *eps[2] = { w.cli.get(), w.srv.get() };
    for (int role = 0; role < 2; role++) {
        MxEndpoint *e = eps[role];
        if (!e || obs.death[role].dead) { continue; }
        bool d = e->got_error || e->got_fatal_alert || e->got_close_notify || (e->request_close && !e->app_closed);
        if (d) {
            obs.death[role].dead = true;
            obs.death[role].kind = e->got_error ? "error" : e->got_fatal_alert ? "fatal_alert_in" : e->got_close_notify ? "close_notify_in" : "alert_out";
            obs.death[role].events_at = e->events.size();
            obs.death[role].delivered_at = e->delivered.size();
            seal_seq_at_death[role] = probe_next;
        }
    }
}

static bool tls13_negotiated(MxEndpoint &e) { return (e.negotiated_version() & 0xffffff) == v_tls_1_3; }

void ProtoRun::check_after_death_output(int role, const Bytes &out) {
    // called with bytes an already-dead endpoint emitted
    MxEndpoint &e = role == 0 ? *w.cli : *w.srv;
    std::vector<Record> recs = split_records(out, pc.dtls());
    for (auto &r : recs) {
        if (r.type == 21) { continue; }
        if (r.type == 23 && !pc.dtls() && tls13_negotiated(e)) { continue; }   // judged through the seal probe below
        obs.nonalert_records_after_death[role]++;
        obs.nonalert_after_death_what[role] = "outer_type_" + std::to_string(r.type);
    }
}


// vecgrow: a length-prefixed vector ANYWHERE inside a plaintext handshake message gets N more bytes (copies of its last two bytes, so list
// items stay plausible), its own length field, the handshake length, the DTLS fragment length and the record length adjusted; enclosing
// vectors are not (some results are inconsistent messages, others are simply longer lists than any honest peer sends)
static bool apply_vecgrow(Bytes &ub, bool dtls, int64_t aa, int64_t ab) {
    size_t hdr = dtls ? 13 : 5, hh = dtls ? 12 : 4;
    if (ub.size() < hdr + hh || ub[0] != 22) { return false; }
    size_t blen = ub.size() - hdr;
    size_t hslen = (size_t) ub[hdr + 1] << 16 | (size_t) ub[hdr + 2] << 8 | ub[hdr + 3];
    if (hslen + hh != blen) { return false; }
    size_t body0 = hdr + hh, bend = ub.size();
    struct Cand { size_t off, w, v; }; std::vector<Cand> cands;
    for (size_t off = body0; off + 1 < bend; off++) {
        for (size_t w = 1; w <= 2; w++) {
            if (off + w > bend) { continue; }
            size_t v = 0; for (size_t i = 0; i < w; i++) { v = v << 8 | ub[off + i]; }
            if (v >= 2 && off + w + v <= bend) { cands.push_back({ off, w, v }); }
        }
    }
    if (cands.empty()) { return false; }
    Cand c = cands[(size_t) ((uint64_t) ab % cands.size())];
    size_t n = ((uint64_t) aa % 4 == 0) ? 2000 + 2 * (size_t) ((uint64_t) (aa / 4) % 7000) : 2 + 2 * (size_t) ((uint64_t) (aa / 4) % 120);
    size_t maxrec = 16384; if (blen + n > maxrec) { n = blen < maxrec ? ((maxrec - blen) & ~(size_t) 1) : 0; }
    if (c.w == 1 && c.v + n > 255) { n = (255 - c.v) & ~(size_t) 1; }
    if (c.w == 2 && c.v + n > 65535) { n = 0; }
    if (n == 0) { return false; }
    size_t at = c.off + c.w + c.v;
    Bytes ins(n); for (size_t i = 0; i < n; i++) { ins[i] = ub[at - 2 + (i & 1)]; }
    ub.insert(ub.begin() + (long) at, ins.begin(), ins.end());
    auto put = [&](size_t off, size_t w, size_t v) { for (size_t i = 0; i < w; i++) { ub[off + i] = (unsigned char) (v >> (8 * (w - 1 - i))); } };
    put(c.off, c.w, c.v + n); put(hdr + 1, 3, hslen + n);
    if (dtls) { put(hdr + 9, 3, hslen + n); }
    size_t nl = ub.size() - hdr; size_t lo = dtls ? 11 : 3;
    ub[lo] = (unsigned char) (nl >> 8); ub[lo + 1] = (unsigned char) nl;
    return true;
}

// Duplicate one extension of a hello message (record body = one whole handshake message).  which: index of the extension to copy; var: 0 = copy as is,
// 1..3 = the copy's body cut to var bytes, 4 = first body byte of the copy altered, 5 = body cut to 0 bytes; (var / 6) % 8 = how many FURTHER copies are
// inserted (a list-valued extension repeated often enough overruns any per-message accumulator sized for one list).  All enclosing lengths are adjusted.
static bool apply_dupext(Bytes &ub, bool dtls, int64_t which, int64_t var) {
    size_t hdr = dtls ? 13 : 5, hh = dtls ? 12 : 4;
    if (ub.size() < hdr + hh + 40) { return false; }
    unsigned char t = ub[hdr];
    if (t != 1 && t != 2) { return false; }
    size_t hslen = (size_t) ub[hdr + 1] << 16 | (size_t) ub[hdr + 2] << 8 | ub[hdr + 3];
    if (hdr + hh + hslen != ub.size()) { return false; }
    size_t p = hdr + hh + 2 + 32;                                  // version, random
    if (p >= ub.size()) { return false; } p += 1 + ub[p];           // session id
    if (t == 1) {
        if (dtls) { if (p >= ub.size()) { return false; } p += 1 + ub[p]; }      // cookie
        if (p + 2 > ub.size()) { return false; } p += 2 + ((size_t) ub[p] << 8 | ub[p + 1]);   // suites
        if (p >= ub.size()) { return false; } p += 1 + ub[p];       // compression
    } else { p += 3; }                                              // suite, compression
    if (p + 2 > ub.size()) { return false; }
    size_t extl_off = p, extl = (size_t) ub[p] << 8 | ub[p + 1]; p += 2;
    if (p + extl != ub.size()) { return false; }
    std::vector<std::pair<size_t, size_t> > ex;                    // (offset, total length incl. 4-byte header)
    for (size_t q = p; q + 4 <= ub.size();) { size_t l = (size_t) ub[q + 2] << 8 | ub[q + 3]; if (q + 4 + l > ub.size()) { break; } ex.push_back({ q, 4 + l }); q += 4 + l; }
    if (ex.empty()) { return false; }
    auto e = ex[(uint64_t) which % ex.size()];
    Bytes copy(ub.begin() + (long) e.first, ub.begin() + (long) (e.first + e.second));
    int v = (int) ((uint64_t) var % 6);
    if (v >= 1 && v <= 3 && copy.size() > 4 + (size_t) v) { copy.resize(4 + (size_t) v); }
    else if (v == 5) { copy.resize(4); }
    else if (v == 4 && copy.size() > 4) { copy[4] ^= 0x5a; }
    copy[2] = (unsigned char) ((copy.size() - 4) >> 8); copy[3] = (unsigned char) (copy.size() - 4);
    { int more = (int) (((uint64_t) var / 6) % 8); Bytes one = copy; for (int i = 0; i < more && copy.size() + one.size() + ub.size() < 15000; i++) { copy.insert(copy.end(), one.begin(), one.end()); } }
    // a TLS 1.3 ClientHello must keep pre_shared_key last: put the copy right behind the original instead of at the end
    ub.insert(ub.begin() + (long) (e.first + e.second), copy.begin(), copy.end());
    size_t n = copy.size();
    auto put = [&](size_t off, size_t w, size_t val) { for (size_t i = 0; i < w; i++) { ub[off + i] = (unsigned char) (val >> (8 * (w - 1 - i))); } };
    put(extl_off, 2, extl + n); put(hdr + 1, 3, hslen + n);
    if (dtls) { put(hdr + 9, 3, hslen + n); }
    size_t nl = ub.size() - hdr, lo = dtls ? 11 : 3;
    put(lo, 2, nl);
    return true;
}

void ProtoRun::filter_record(Record &r, std::vector<Bytes> &out) {
    (void) out;   // everything goes through our own unit queue
    int dir = r.dir;
    int role_sender = dir == DIR_C2S ? 0 : 1;
    if (obs.death[role_sender].dead) { check_after_death_output(role_sender, r.raw); }
    {
        // C17: CBC-protected records as they appear on the wire
        MxEndpoint &snd = w.ep(dir);
        bool prot = pc.dtls() ? r.epoch > 0 : ccs_emitted[dir];
        uint32_t suite = snd.alive() ? snd.negotiated_suite() : 0;
        if (prot && suite && !suite_is_aead((uint16_t) suite) && !suite_is_tls13((uint16_t) suite) && r.type != 20) { audit.on_wire_cbc_record(snd.ssl, r.raw.data() + r.hdr, r.body_len(), pc.dtls()); }
        if (prot && suite && suite_is_aead((uint16_t) suite) && !suite_is_tls13((uint16_t) suite) && !pc.dtls() && r.type != 20 && suite != TLS_CHACHA20_POLY1305_SHA256) { audit.on_wire_gcm12_record(snd.ssl, r.raw.data() + r.hdr, r.body_len()); }
        if (r.type == 20) { ccs_emitted[dir] = true; audit.wire_gcm_last.erase((uintptr_t) snd.ssl); }
        if (pc.dtls() && r.epoch > 0 && snd.alive()) { audit.on_wire_dtls_record(snd.ssl, r.epoch, r.seq, r.raw.data(), r.raw.size()); }
    }
    Armed &a = armed[dir];
    if (captured_reset) { have_held[0] = have_held[1] = false; captured_reset = false; }
    Unit u; u.b = r.raw;
    if (have_glue[dir]) { Bytes j = glue_b[dir]; j.insert(j.end(), u.b.begin(), u.b.end()); u.b = j; u.tampered = true; u.kind = "glued_ccs"; u.is_mod = false; have_glue[dir] = false; g_q[dir].push_back(u); return; }
    if (pending_gap[dir]) { u.tampered = true; u.kind = "after_drop"; u.is_mod = gap_is_mod[dir]; pending_gap[dir] = false; }
    if (a.on && a.skip > 0) { a.skip--; }
    else if (a.on) {
        a.on = false;
        obs.fault_fired[dir] = true;
        size_t hdr = r.hdr, blen = r.body_len();
        obs.counters["fault." + a.kind]++;
        bool is_mod = obs.hs_done;
        if (a.kind == "flip") {
            size_t nbits = u.b.size() * 8;
            // never the length field: that is the separate "setlen" fault (framing desync has a different oracle)
            size_t bit = (size_t) ((uint64_t) a.a % nbits);
            size_t byte = bit / 8;
            size_t len_off = pc.dtls() ? 11 : 3;
            if (byte == len_off || byte == len_off + 1) { byte = hdr + (blen ? (size_t) ((uint64_t) a.b % blen) : 0); if (byte >= u.b.size()) { byte = 0; } }
            u.b[byte] ^= (unsigned char) (1u << (bit % 8));
            u.tampered = true; u.kind = byte < hdr ? "flip_header" : "flip_body"; u.is_mod = is_mod;
            if (byte < hdr) { u.kind += "_" + std::to_string(byte); }
        } else if (a.kind == "flipbit") {
            size_t bit = (size_t) a.a;
            if (bit >= u.b.size() * 8) { obs.counters["fault_not_fired"]++; obs.counters["fault.flipbit"]--; }
            else {
                size_t byte = bit / 8; size_t len_off = pc.dtls() ? 11 : 3;
                u.b[byte] ^= (unsigned char) (1u << (bit % 8));
                u.tampered = true; u.kind = byte < hdr ? "flip_header_" + std::to_string(byte) : "flip_body";
                u.is_mod = is_mod && !(byte == len_off || byte == len_off + 1);
            }
        } else if (a.kind == "setword" || a.kind == "setbyte" || a.kind == "set3") {
            // structure-blind field edit inside the record body: overwrite 1/2/3 bytes at an offset with a boundary value
            static const uint32_t VALS[] = { 0, 1, 2, 0x7f, 0x80, 0xff, 0x100, 0x3fff, 0x4000, 0x4001, 0x7fff, 0x8000, 0xffff, 0xfffe, 0x10000, 0xffffff };
            size_t w = a.kind == "setbyte" ? 1 : a.kind == "setword" ? 2 : 3;
            if (blen >= w) {
                size_t off = hdr + (size_t) ((uint64_t) a.a % (blen - w + 1));
                uint32_t v = VALS[(uint64_t) a.b % (sizeof VALS / sizeof VALS[0])];
                if (((uint64_t) a.b >> 8) % 3 == 1) { uint32_t cur = 0; for (size_t i = 0; i < w; i++) { cur = cur << 8 | u.b[off + i]; } v = cur + 1; }
                if (((uint64_t) a.b >> 8) % 3 == 2) { uint32_t cur = 0; for (size_t i = 0; i < w; i++) { cur = cur << 8 | u.b[off + i]; } v = cur ? cur - 1 : 0xffffff; }
                for (size_t i = 0; i < w; i++) { u.b[off + i] = (unsigned char) (v >> (8 * (w - 1 - i))); }
                u.tampered = true; u.kind = a.kind; u.is_mod = is_mod;
            }
        } else if (a.kind == "hsfield") {
            // handshake header fields of a plaintext handshake record: length (1..3), DTLS: msg_seq (4..5), frag_offset (6..8), frag_length (9..11)
            static const uint32_t VALS[] = { 0, 1, 0xff, 0x100, 0x3fff, 0x4000, 0xffff, 0x10000, 0xea60, 0xffffff };
            size_t hh = pc.dtls() ? 12 : 4;
            if (r.type == 22 && blen >= hh) {
                size_t fo; size_t w = 3;
                switch ((uint64_t) a.a % (pc.dtls() ? 4 : 1)) { case 1: fo = 4; w = 2; break; case 2: fo = 6; break; case 3: fo = 9; break; default: fo = 1; break; }
                uint32_t cur = 0; for (size_t i = 0; i < w; i++) { cur = cur << 8 | u.b[hdr + fo + i]; }
                uint32_t v;
                switch (((uint64_t) a.b >> 8) % 4) { case 0: v = cur + 1; break; case 1: v = cur ? cur - 1 : 0xffff; break; case 2: v = cur + (uint32_t) blen; break; default: v = VALS[(uint64_t) a.b % (sizeof VALS / sizeof VALS[0])]; break; }
                for (size_t i = 0; i < w; i++) { u.b[hdr + fo + i] = (unsigned char) (v >> (8 * (w - 1 - i))); }
                u.tampered = true; u.kind = "hsfield_" + std::to_string(fo); u.is_mod = is_mod;
            }
        } else if (a.kind == "glue_ccs") {
            // 1..4 forged plaintext change_cipher_spec records arrive in the same read as (glued in front of) the honest record
            int n = 1 + (int) ((uint64_t) a.a % 4);
            uint16_t v = pc.dtls() ? (pc.version == v_dtls_1_0 ? 0xfeff : 0xfefd) : (pc.version == v_tls_1_1 ? 0x0302 : 0x0303);
            Bytes pre;
            for (int i = 0; i < n; i++) { Bytes c = make_record(20, v, Bytes{ 1 }, pc.dtls(), 0, 5000 + (uint64_t) i); pre.insert(pre.end(), c.begin(), c.end()); }
            pre.insert(pre.end(), u.b.begin(), u.b.end());
            u.b = pre; u.tampered = true; u.kind = "glued_ccs"; u.is_mod = false;
            // b & 1: the NEXT honest record of this direction arrives in the same read as well (CCS.., record, record)
            if (a.b & 1) { glue_b[dir] = u.b; have_glue[dir] = true; return; }
        } else if (a.kind == "fragmove") {
            // DTLS: one fragment claims a longer message AND a fragment offset at/after the originally announced end (two fields changed together)
            if (pc.dtls() && r.type == 22 && blen >= 12 && r.epoch == 0) {
                static const uint32_t DELTA[] = { 1, 64, 300, 575, 4000, 60000 };
                uint32_t hslen = (uint32_t) u.b[hdr + 1] << 16 | (uint32_t) u.b[hdr + 2] << 8 | u.b[hdr + 3];
                uint32_t flen = (uint32_t) u.b[hdr + 9] << 16 | (uint32_t) u.b[hdr + 10] << 8 | u.b[hdr + 11];
                uint32_t nl = hslen + DELTA[(uint64_t) a.a % 6] + flen;
                uint32_t no = ((uint64_t) a.b & 1) ? hslen : hslen + DELTA[(uint64_t) a.a % 6];
                u.b[hdr + 1] = (unsigned char) (nl >> 16); u.b[hdr + 2] = (unsigned char) (nl >> 8); u.b[hdr + 3] = (unsigned char) nl;
                u.b[hdr + 6] = (unsigned char) (no >> 16); u.b[hdr + 7] = (unsigned char) (no >> 8); u.b[hdr + 8] = (unsigned char) no;
                u.tampered = true; u.kind = "fragmove"; u.is_mod = is_mod;
            }
        } else if (a.kind == "grow" || a.kind == "shrink") {
            // structure-aware resize of a plaintext handshake message: add (or remove) N bytes at the end and keep every enclosing length field
            // consistent - record length, handshake length, DTLS fragment length, and every 1/2/3-byte vector length inside the body whose
            // vector runs exactly to the end of the message (generic TLS-vector walk)
            size_t hh = pc.dtls() ? 12 : 4;
            bool plain_hs = r.type == 22 && blen >= hh && !ccs_emitted[dir] && (!pc.dtls() || r.epoch == 0);
            if (plain_hs) {
                size_t hslen = (size_t) u.b[hdr + 1] << 16 | (size_t) u.b[hdr + 2] << 8 | u.b[hdr + 3];
                bool whole = hslen + hh == blen;     // one complete, unfragmented message in this record
                size_t n = 1 + (size_t) ((uint64_t) a.a % 200);
                bool grow = a.kind == "grow";
                if (!grow && n > hslen) { n = hslen; }
                if (whole && n > 0) {
                    size_t body0 = hdr + hh, bend = u.b.size();
                    auto adj = [&](size_t off, size_t w) {
                        size_t v = 0; for (size_t i = 0; i < w; i++) { v = v << 8 | u.b[off + i]; }
                        v = grow ? v + n : v - n;
                        for (size_t i = 0; i < w; i++) { u.b[off + i] = (unsigned char) (v >> (8 * (w - 1 - i))); }
                    };
                    // inner trailing vectors first (outermost..innermost all end at the message end); which ones to touch is seeded: all, or all but the innermost k
                    std::vector<std::pair<size_t, size_t> > vecs;
                    for (size_t off = body0; off + 1 <= bend; off++) {
                        for (size_t w = 1; w <= 3; w++) {
                            if (off + w > bend) { continue; }
                            size_t v = 0; for (size_t i = 0; i < w; i++) { v = v << 8 | u.b[off + i]; }
                            if (v == bend - (off + w) && v > 0 && (grow || v >= n)) { vecs.push_back({ off, w }); off += w - 1; break; }   // the low bytes of a length field are not length fields themselves
                        }
                    }
                    size_t keep = vecs.size(); size_t skip_inner = (size_t) ((uint64_t) a.b % 4 == 3 ? 1 : 0);
                    if (skip_inner && keep) { keep--; }
                    for (size_t i = 0; i < keep; i++) { adj(vecs[i].first, vecs[i].second); }
                    adj(hdr + 1, 3);
                    if (pc.dtls()) { adj(hdr + 9, 3); }
                    if (grow) { Rng g((uint64_t) a.b + 29); for (size_t i = 0; i < n; i++) { u.b.push_back((unsigned char) g.next()); } }
                    else { u.b.resize(u.b.size() - n); }
                    size_t nl = u.b.size() - hdr; size_t lo = pc.dtls() ? 11 : 3;
                    u.b[lo] = (unsigned char) (nl >> 8); u.b[lo + 1] = (unsigned char) nl;
                    u.tampered = true; u.kind = a.kind; u.is_mod = is_mod;
                    obs.counters[std::string("fault.") + a.kind + "_applied"]++;
                }
            }
        } else if (a.kind == "vecgrow") {
            bool plain_hs = r.type == 22 && !ccs_emitted[dir] && (!pc.dtls() || r.epoch == 0);
            if (plain_hs && apply_vecgrow(u.b, pc.dtls(), a.a, a.b)) {
                u.tampered = true; u.kind = a.kind; u.is_mod = is_mod;
                obs.counters["fault.vecgrow_applied"]++;
            }
        } else if (a.kind == "dupext") {
            // a ClientHello / ServerHello whose extension list carries one extension TWICE; the second copy as is, cut short, or with its first body byte changed
            bool plain_hs = r.type == 22 && !ccs_emitted[dir] && (!pc.dtls() || r.epoch == 0);
            if (plain_hs && apply_dupext(u.b, pc.dtls(), a.a, a.b)) {
                u.tampered = true; u.kind = a.kind; u.is_mod = is_mod;
                obs.counters["fault.dupext_applied"]++;
            }
        } else if (a.kind == "refrag") {
            // split a plaintext TLS handshake record into two records at a seeded offset (legal: handshake messages may span records)
            if (!pc.dtls() && r.type == 22 && blen >= 2 && !ccs_emitted[dir]) {
                size_t cut = 1 + (size_t) ((uint64_t) a.a % (blen - 1));
                Unit u1, u2;
                u1.b.assign(u.b.begin(), u.b.begin() + (long) hdr + (long) cut); u1.b[3] = (unsigned char) (cut >> 8); u1.b[4] = (unsigned char) cut;
                u2.b.assign(u.b.begin(), u.b.begin() + (long) hdr); u2.b.insert(u2.b.end(), u.b.begin() + (long) hdr + (long) cut, u.b.end());
                size_t rest = blen - cut; u2.b[3] = (unsigned char) (rest >> 8); u2.b[4] = (unsigned char) rest;
                u1.tampered = u2.tampered = true; u1.kind = u2.kind = "refrag"; u1.is_mod = u2.is_mod = false;
                g_q[dir].push_back(u1); g_q[dir].push_back(u2);
                return;
            }
        } else if (a.kind == "trunc") {
            size_t cut = blen ? 1 + (size_t) ((uint64_t) a.a % blen) : 0;
            u.b.resize(u.b.size() - cut);
            size_t nl = blen - cut; size_t lo = pc.dtls() ? 11 : 3;
            u.b[lo] = (unsigned char) (nl >> 8); u.b[lo + 1] = (unsigned char) nl;
            u.tampered = true; u.kind = "trunc"; u.is_mod = is_mod;
        } else if (a.kind == "cutfront") {
            // the leading cipher blocks of the body (explicit IV first) removed, length field adjusted: what remains still ends in the
            // sender's last blocks, so under CBC its padding decrypts correctly although MAC and IV no longer fit
            size_t nblk = blen / 16;
            if (nblk >= 2) {
                size_t cut = 16 * (1 + (size_t) ((uint64_t) a.a % (nblk - 1)));
                u.b.erase(u.b.begin() + (long) hdr, u.b.begin() + (long) (hdr + cut));
                size_t nl = blen - cut; size_t lo = pc.dtls() ? 11 : 3;
                u.b[lo] = (unsigned char) (nl >> 8); u.b[lo + 1] = (unsigned char) nl;
                u.tampered = true; u.kind = "cutfront"; u.is_mod = is_mod;
            }
        } else if (a.kind == "extend") {
            size_t add = 1 + (size_t) ((uint64_t) a.a % 32);
            Rng g((uint64_t) a.b + 17);
            for (size_t i = 0; i < add; i++) { u.b.push_back((unsigned char) g.next()); }
            size_t nl = blen + add; size_t lo = pc.dtls() ? 11 : 3;
            u.b[lo] = (unsigned char) (nl >> 8); u.b[lo + 1] = (unsigned char) nl;
            u.tampered = true; u.kind = "extend"; u.is_mod = is_mod;
        } else if (a.kind == "setlen") {
            static const int64_t deltas[] = { -1, 1, -2, 16 };
            size_t lo = pc.dtls() ? 11 : 3;
            int64_t nl;
            switch ((uint64_t) a.a % 6) { case 0: nl = 0; break; case 1: nl = 1; break; case 2: nl = 0xffff; break; default: nl = (int64_t) blen + deltas[(uint64_t) a.a % 4]; break; }
            if (nl < 0) { nl = 0; }
            if ((size_t) nl == blen) { nl = (int64_t) blen + 1; }
            u.b[lo] = (unsigned char) (nl >> 8); u.b[lo + 1] = (unsigned char) nl;
            u.tampered = true; u.kind = "setlen"; u.is_mod = false;   // framing desync: only the prefix oracle applies
        } else if (a.kind == "type") {
            static const unsigned char T[] = { 20, 21, 22, 23, 24, 0, 255 };
            unsigned char nt = T[(uint64_t) a.a % 7];
            if (nt == u.b[0]) { nt = (unsigned char) (u.b[0] == 23 ? 22 : 23); }
            u.b[0] = nt; u.tampered = true; u.kind = "edit_type"; u.is_mod = is_mod;
        } else if (a.kind == "ver") {
            static const unsigned short V[] = { 0x0301, 0x0302, 0x0303, 0x0304, 0x0203, 0xfeff, 0xfefd, 0x0000 };
            unsigned short nv = V[(uint64_t) a.a % 8];
            if (nv == r.ver) { nv = (unsigned short) (r.ver ^ 0x0100); }
            u.b[1] = (unsigned char) (nv >> 8); u.b[2] = (unsigned char) nv; u.tampered = true; u.kind = "edit_version"; u.is_mod = is_mod;
        } else if (a.kind == "epoch" && pc.dtls()) {
            unsigned short ne = (unsigned short) (r.epoch + 1 + (uint64_t) a.a % 3);
            if ((uint64_t) a.a % 4 == 0) { ne = 0; if (r.epoch == 0) { ne = 1; } }
            u.b[3] = (unsigned char) (ne >> 8); u.b[4] = (unsigned char) ne; u.tampered = true; u.kind = "edit_epoch"; u.is_mod = is_mod;
        } else if (a.kind == "seq" && pc.dtls()) {
            u.b[10] = (unsigned char) (u.b[10] + 1 + (uint64_t) a.a % 5); u.tampered = true; u.kind = "edit_seq"; u.is_mod = is_mod;
        } else if (a.kind == "drop") {
            pending_gap[dir] = true; gap_is_mod[dir] = is_mod && !pc.dtls();
            return;
        } else if (a.kind == "dup") {
            Unit first = u; g_q[dir].push_back(first);
            u.tampered = true; u.kind = "dup"; u.is_mod = is_mod;
        } else if (a.kind == "swapnext") {
            held_b[dir] = u.b; held_mod[dir] = is_mod; have_held[dir] = true;
            swap_pending[dir] = true;
            return;
        }
    } else if (swap_pending[dir] && have_held[dir]) {
        // this record overtakes the held one
        swap_pending[dir] = false; have_held[dir] = false;
        Unit h; h.b = held_b[dir]; h.tampered = true; h.kind = "swapped_late"; h.is_mod = held_mod[dir];
        u.tampered = true; u.kind = "swapped_early"; u.is_mod = held_mod[dir];
        if (u.b == h.b) { u.tampered = false; h.tampered = false; }   // identical records: the swap is invisible
        g_q[dir].push_back(u);
        g_q[dir].push_back(h);
        return;
    }
    g_q[dir].push_back(u);
}

void ProtoRun::hand_to_receiver(int dir, const Bytes &unit, bool tampered_in, const std::string &kind_in, bool is_mod) {
    MxEndpoint &rcv = w.peer(dir);
    int role = role_of_receiver(dir);
    if (!rcv.alive()) { return; }
    bool tampered = tampered_in; std::string kind = kind_in;
    if (!pc.dtls()) {
        // Ground truth for a stream: the receiver's input is untampered exactly as long as it equals the honest emitted stream.
        bool in_order = next_honest[dir] < w.captured[dir].size() && w.captured[dir][next_honest[dir]].raw == unit;
        if (in_order && !obs.tampered[dir]) { tampered = false; next_honest[dir]++; }
        else if (!tampered) { tampered = true; kind = in_order ? "after_divergence" : "out_of_order"; is_mod = obs.hs_done; }
    }
    if (tampered) { note_tamper(dir, kind, is_mod); }
    bool was_dead = obs.death[role].dead;
    size_t before = rcv.delivered.size();
    size_t ev_before = rcv.events.size();
    if (tampered) {
        obs.states.push_back(std::string(role ? "srv" : "cli") + "," + ver_name(pc.version) + ",hs" + std::to_string(rcv.hs_state()) + "," + kind);
    }
    {
        size_t hdr = pc.dtls() ? 13 : 5;
        if (unit.size() >= hdr + 1 && unit[0] == 20) { obs.ccs_given[role] = true; }
        bool epoch0 = !pc.dtls() || (unit.size() >= 5 && unit[3] == 0 && unit[4] == 0);
        if (kind == "inject_alert" && unit.size() == hdr + 2 && unit[hdr] == 2 && !obs.ccs_given[role] && epoch0 && !obs.death[role].dead) {
            obs.fatal_alert_given[role] = true; obs.fatal_alert_desc[role] = unit[hdr + 1];
        }
    }
    bool skip_watch = role == 1 && pc.version == v_tls_1_3 && !rcv.is_complete() && unit.size() > 5 && unit[0] == 23 && !obs.death[role].dead;
    int hs_before = rcv.hs_state(); size_t out_pending_before = rcv.pending_out(); size_t ev_n = rcv.events.size();
    int aead_fail_before = obs.aead_fail[role]; bool complete_before_feed = rcv.is_complete();
    if (split && !pc.dtls() && unit.size() > 1) {
        // stream re-chunking: the same bytes in 2..4 pieces at seeded offsets (a legal transport behaviour)
        size_t off = 0; int pieces = 1 + split;
        for (int i = 0; i < pieces && off < unit.size() && rcv.alive(); i++) {
            size_t n = i == pieces - 1 ? unit.size() - off : 1 + (size_t) opr.below(unit.size() - off);
            rcv.feed(unit.data() + off, n); off += n;
        }
        obs.counters["net.rechunked"]++;
    } else {
        rcv.feed(unit.data(), unit.size());
    }
    if (tampered) { obs.tamper_consumed[dir] = true; }
    if (skip_watch && rcv.alive() && !rcv.is_dead() && !rcv.is_complete() && rcv.hs_state() == hs_before && rcv.delivered.size() == before && rcv.pending_out() == out_pending_before) {
        bool errored = false; for (size_t i = ev_n; i < rcv.events.size(); i++) { if (rcv.events[i].rc < 0) { errored = true; } }
        if (!errored) { size_t bl = unit.size() - 5; obs.skipped_undecryptable_bytes += bl > 17 ? bl - 17 : 0; obs.skipped_records++; obs.counters["early.server_skipped_record"]++; }
    }
    if (was_dead) {
        if (rcv.delivered.size() > before) { obs.appdata_after_death[role] += (int) (rcv.delivered.size() - before); }
        for (size_t i = ev_before; i < rcv.events.size(); i++) {
            const ApiEvent &e = rcv.events[i];
            if ((!strcmp(e.api, "ReceivedData") || !strcmp(e.api, "ProcessedData")) && (e.rc == MATRIXSSL_APP_DATA || e.rc == MATRIXSSL_HANDSHAKE_COMPLETE)) {
                obs.success_rc_after_death[role]++; obs.success_api_after_death[role] = std::string(e.api) + "=" + std::to_string(e.rc);
            }
            if (!strcmp(e.api, "ReceivedData") && e.len > 0 && (e.rc == PS_SUCCESS || e.rc == MATRIXSSL_REQUEST_RECV)) { obs.counters["after_death.recv_more"]++; }
        }
    }
    after_event();
    // collect responses (this also audits what a dead endpoint emits)
    size_t out_before = 0;
    for (auto &u : g_q[1 - dir]) { out_before += u.b.size(); }
    w.collect(DIR_C2S); w.collect(DIR_S2C);
    size_t out_after = 0;
    for (auto &u : g_q[1 - dir]) { out_after += u.b.size(); }
    if (obs.tamper_consumed[dir] && out_after > out_before) { obs.out_bytes_after_tamper[dir] += out_after - out_before; }
    after_event();    if (obs.aead_fail[role] > aead_fail_before && !was_dead && !obs.death[role].dead && rcv.alive()) {
        // a record failed authenticated decryption inside this call and the session lives on.  The one tolerated case: a TLS 1.3 server
        // that has not completed skips records while rejecting early data (bounded separately by skipped_undecryptable_bytes)
        bool early_skip = role == 1 && pc.version == v_tls_1_3 && !complete_before_feed;
        if (!early_skip) {
            obs.aead_fail_survived[role] += obs.aead_fail[role] - aead_fail_before;
            if (obs.aead_fail_survived_ctx[role].empty()) { obs.aead_fail_survived_ctx[role] = std::string(complete_before_feed ? "connected" : "handshake") + "," + kind; }
        } else { obs.counters["aead_fail.early_skip"]++; }
    }
}

Bytes ProtoRun::craft(int dir, const Op &op, bool &is_mod, std::string &kind) {
    is_mod = false;
    bool dtls = pc.dtls();
    MxEndpoint &rcv = w.peer(dir);
    uint16_t ver = dtls ? (pc.version == v_dtls_1_0 ? 0xfeff : 0xfefd) : (pc.version == v_tls_1_1 ? 0x0302 : 0x0303);
    // DTLS header choices: epoch from {0, current guess, future}, sequence high so it is "new"
    uint16_t epoch = 0; uint64_t seq = 1000 + (uint64_t) op.c;
    if (dtls) {
        uint16_t cur = 0;
        for (auto &r : w.captured[dir]) { if (r.epoch > cur) { cur = r.epoch; } }
        switch ((uint64_t) op.d % 3) { case 0: epoch = 0; break; case 1: epoch = cur; break; default: epoch = (uint16_t) (cur + 1); break; }
    }
    (void) rcv;
    const std::string &k = op.s;
    kind = "inject_" + k;
    Rng g(derive(plan.seed, "craft", (uint64_t) op.b * 131 + (uint64_t) op.c));
    if (k == "plain23") {
        static const int L[] = { 0, 1, 5, 16, 64, 1024, 16384, 16385 };
        size_t len = (size_t) L[(uint64_t) op.b % 8];
        Bytes body(len); for (auto &c : body) { c = (unsigned char) ('A' + g.below(26)); }
        static const unsigned short V[] = { 0x0303, 0x0301, 0x0302, 0x0304, 0x0300 };
        uint16_t v = dtls ? ver : V[(uint64_t) op.c % 5];
        return make_record(23, v, body, dtls, epoch, seq);
    }
    if (k == "garbage") {
        static const unsigned char T[] = { 23, 22, 21, 20, 23, 24, 99 };
        size_t len = 1 + (size_t) g.below(200);
        Bytes body(len); for (auto &c : body) { c = (unsigned char) g.next(); }
        return make_record(T[(uint64_t) op.b % 7], ver, body, dtls, epoch, seq);
    }
    if (k == "replay" || k == "relabel") {
        auto &cap = w.captured[dir];
        if (cap.empty()) { return Bytes(); }
        // b < 0 counts from the newest captured record (-1 = the record this direction emitted last)
        Record r = op.b < 0 ? cap[cap.size() - (size_t) std::min<uint64_t>((uint64_t) -op.b, cap.size())] : cap[(uint64_t) op.b % cap.size()];
        if (k == "relabel") { static const unsigned char T[] = { 23, 22, 21, 20 }; unsigned char nt = T[(uint64_t) op.c % 4]; if (nt == r.raw[0]) { nt = (unsigned char) (nt == 23 ? 22 : 23); } r.raw[0] = nt; }
        return r.raw;
    }
    if (k == "regrow") {
        // a copy of an earlier plaintext handshake record of this direction with one of its vectors made longer (e.g. a second
        // HelloVerifyRequest / ServerHello / CertificateRequest that repeats the first one's contents and then goes on)
        auto &cap = w.captured[dir];
        if (cap.empty()) { return Bytes(); }
        Bytes ub = cap[(uint64_t) op.b % cap.size()].raw;
        if (!apply_vecgrow(ub, dtls, (op.c & 1) ? 0 : 4 * (int64_t) (1 + op.c), op.d)) { return Bytes(); }
        if (dtls && ub.size() > 11) { ub[10] ^= 0x40; }     // another record sequence number, so that it is not dropped as a replay
        if (dtls && (op.c & 2) && ub.size() > 13 + 5) { ub[13 + 5] = (unsigned char) (ub[13 + 5] + 1); }   // ... and the next handshake message sequence number, so that it is not taken for a retransmission
        return ub;
    }
    if (k == "reflect") {
        auto &cap = w.captured[1 - dir];
        if (cap.empty()) { return Bytes(); }
        return cap[(uint64_t) op.b % cap.size()].raw;
    }
    if (k == "cross") {
        auto &cap = sibling[dir];
        if (cap.empty()) { return Bytes(); }
        // prefer protected records of the sibling
        std::vector<size_t> idx;
        for (size_t i = 0; i < cap.size(); i++) { if (cap[i].type == 23 || (dtls && cap[i].epoch > 0)) { idx.push_back(i); } }
        if (idx.empty()) { return cap[(uint64_t) op.b % cap.size()].raw; }
        return cap[idx[(uint64_t) op.b % idx.size()]].raw;
    }
    if (k == "alert") {
        static const unsigned char D[] = { 0, 10, 20, 21, 22, 40, 42, 47, 48, 50, 51, 70, 80, 86, 90, 100, 109, 110, 112, 120, 255 };
        Bytes body = { (unsigned char) (1 + (uint64_t) op.b % 2), D[(uint64_t) op.c % (sizeof D)] };
        if ((uint64_t) op.b % 7 == 6) { body[0] = 3; }
        return make_record(21, ver, body, dtls, epoch, seq);
    }
    if (k == "ccs") { return make_record(20, ver, Bytes{ 1 }, dtls, epoch, seq); }
    if (k == "ccs_tail") {
        // a ChangeCipherSpec record with the beginning of a handshake record tacked on in the same datagram / read: a lone type byte, a partial
        // header, a whole header announcing more than follows (the receiver of a repeated CCS+Finished flight skips "the Finished behind it")
        Bytes b = make_record(20, ver, Bytes{ 1 }, dtls, epoch, seq);
        Bytes h = make_record(22, ver, Bytes(), dtls, epoch, seq + 1);      // header only, length 0
        size_t hl = h.size();
        switch ((uint64_t) op.b % 6) {
        case 0: h.resize(1); break;
        case 1: h.resize(5 < hl ? 5 : hl); break;
        case 2: h.resize(hl - 1); break;
        case 3: h[hl - 2] = 0xff; h[hl - 1] = 0xff; break;
        case 4: h[hl - 2] = 0; h[hl - 1] = 100; for (int i = 0; i < 10; i++) { h.push_back((unsigned char) g.next()); } break;
        default: h[hl - 2] = 0x40; h[hl - 1] = 0; for (int i = 0; i < 40; i++) { h.push_back((unsigned char) g.next()); } break;
        }
        b.insert(b.end(), h.begin(), h.end());
        return b;
    }
    if (k == "hsmsg") {
        static const unsigned char T[] = { 0, 1, 2, 4, 11, 12, 13, 14, 15, 16, 20, 8, 24, 5 };
        unsigned char t = T[(uint64_t) op.b % (sizeof T)];
        size_t len = (size_t) g.below(40);
        Bytes body = { t, 0, (unsigned char) (len >> 8), (unsigned char) len };
        if (dtls) { body.insert(body.end(), { 0, (unsigned char) ((uint64_t) op.c % 6), 0, 0, 0, 0, (unsigned char) (len >> 8), (unsigned char) len }); }
        for (size_t i = 0; i < len; i++) { body.push_back((unsigned char) g.next()); }
        return make_record(22, ver, body, dtls, epoch, seq);
    }
    kind = "inject_none";
    return Bytes();
}

void ProtoRun::deliver_all() {
    for (int n = 0; n < PROTO_MAX_STEPS; n++) {
        w.collect(DIR_C2S); w.collect(DIR_S2C);
        bool moved = false;
        for (int dir = 0; dir < 2; dir++) {
            if (!g_q[dir].empty()) {
                Unit u = g_q[dir].front(); g_q[dir].pop_front();
                hand_to_receiver(dir, u.b, u.tampered, u.kind, u.is_mod);
                moved = true;
            }
        }
        if (!moved) { break; }
    }
}

void ProtoRun::do_op(const Op &op) {
    int dir = (int) (op.a & 1);
    if (op.k == "hs") {
        deliver_all();
        obs.hs_done = w.cli->is_complete() && w.srv->is_complete();
    } else if (op.k == "steps") {
        // deliver op.a single units, alternating, starting with the direction that has something queued
        int64_t n = op.a;
        for (int64_t i = 0; i < n && i < PROTO_MAX_STEPS; i++) {
            w.collect(DIR_C2S); w.collect(DIR_S2C);
            int d = !g_q[0].empty() ? 0 : 1;
            if (g_q[d].empty()) { break; }
            Unit u = g_q[d].front(); g_q[d].pop_front();
            hand_to_receiver(d, u.b, u.tampered, u.kind, u.is_mod);
        }
        obs.hs_done = w.cli->is_complete() && w.srv->is_complete();
    } else if (op.k == "burst") {
        // op.b application records of three bytes each in one direction, delivered as they go (long-lived connection: sequence numbers far
        // beyond 2^16 under one traffic key)
        MxEndpoint &e = w.ep(dir);
        if (e.alive() && e.is_complete()) {
            Bytes one(3, 0x42);      // the record number itself: no two records of the burst carry the same plaintext
            for (int64_t i = 0; i < op.b && e.alive() && !obs.death[0].dead && !obs.death[1].dead; i++) {
                one[0] = (unsigned char) i; one[1] = (unsigned char) (i >> 8); one[2] = (unsigned char) (i >> 16);
                if (e.app_send(one.data(), one.size(), false) < 0) { break; }
                obs.sent[dir].push_back(one);
                if ((i & 63) == 63 || i + 1 == op.b) { w.collect(DIR_C2S); w.collect(DIR_S2C); deliver_all(); }
            }
            obs.counters["app.burst_records"] += op.b;
        }
    } else if (op.k == "wbegin") {
        // first half of a split write on a live, connected session
        MxEndpoint &e = w.ep(dir);
        if (e.alive() && e.is_complete() && !obs.death[dir == DIR_C2S ? 0 : 1].dead && !e.app_closed) {
            size_t len = (size_t) op.b; if (len == 0) { len = 1; } if (pc.dtls() && len > 900) { len = 900; }
            w.collect(DIR_C2S); w.collect(DIR_S2C);
            if (e.write_begin(len) > 0) { obs.counters["app.split_write_begin"]++; }
        }
    } else if (op.k == "sendq") {
        // the application writes but the transport has not taken the bytes yet: output stays pending inside the session
        MxEndpoint &e = w.ep(dir);
        if (e.alive() && e.is_complete() && !obs.death[dir == DIR_C2S ? 0 : 1].dead) {
            size_t len = (size_t) op.b; if (len == 0) { len = 1; } if (pc.dtls() && len > 900) { len = 900; }
            Bytes pl = tagged_payload(dir, (int) (obs.sent[dir].size() + (size_t) encode_attempts++), len);
            int rc = e.app_send(pl.data(), pl.size(), op.c & 1);
            if (rc >= 0) { obs.sent[dir].push_back(pl); obs.counters["app.write_left_pending"]++; }
            after_event();
        }
    } else if (op.k == "deliverq") {
        // hand the next queued unit of a direction to its receiver WITHOUT first draining anybody's pending output
        if (!g_q[dir].empty()) { Unit u = g_q[dir].front(); g_q[dir].pop_front(); hand_to_receiver(dir, u.b, u.tampered, u.kind, u.is_mod); }
        obs.hs_done = w.cli->is_complete() && w.srv->is_complete();
    } else if (op.k == "pump") {
        deliver_all();
        obs.hs_done = w.cli->is_complete() && w.srv->is_complete();
    } else if (op.k == "send" || op.k == "try_encode") {
        MxEndpoint &e = w.ep(dir);
        int role = dir == DIR_C2S ? 0 : 1;
        if (!e.alive()) { return; }
        size_t len = (size_t) op.b;
        if (pc.dtls() && len > 900) { len = 900; }
        if (len == 0) { len = 1; }
        if ((op.c & 8) && !pc.dtls()) { len = 0; obs.counters["app.empty_record_write"]++; }     // an empty application record (matrixSslGetWritebuf + matrixSslEncodeWritebuf(0))
        int idx = (int) (obs.sent[dir].size() + (size_t) encode_attempts++);
        Bytes pl = tagged_payload(dir, idx, len);
        bool complete_before = e.is_complete();
        bool was_dead = obs.death[role].dead;
        // TLS 1.3 0-RTT: a client whose ticket permits early data may write before completion (that is early data), and a server that
        // ACCEPTED early data may answer it before the client's Finished (0.5-RTT data)
        vsim_set_node(e.node);
        bool early_client = dir == DIR_C2S && pc.version == v_tls_1_3 && !complete_before && matrixSslGetMaxEarlyData(e.ssl) > 0;
        bool early_server = dir == DIR_S2C && pc.version == v_tls_1_3 && !complete_before && pc.max_early_data > 0 && plan.get("resume") != 0 && plan.get("early1", plan.get("early")) > 0 &&
                            (matrixSslGetEarlyDataStatus(e.ssl) == MATRIXSSL_EARLY_DATA_ACCEPTED || e.hs_state() == 27 /* SSL_HS_TLS_1_3_WAIT_EOED: early data accepted, its end awaited */);
        int rc;
        if ((op.c & 4) && e.wb_ptr_ && complete_before) {
            // second half of a split write: matrixSslGetWritebuf was called earlier (op "wbegin"), other events happened, matrixSslEncodeWritebuf now
            if (pl.size() > (size_t) e.wb_room_) { pl.resize((size_t) e.wb_room_); }
            rc = e.write_commit(pl.data(), pl.size()); obs.counters["app.split_write_commit"]++;
        } else if ((op.c & 2) && (was_dead || e.app_closed)) {
            // a dead session's application tries matrixSslEncodeToUserBuf (ciphertext into its own buffer: nothing reaches the wire here)
            rc = e.app_send_userbuf(pl.data(), pl.size(), nullptr); if (rc == 0) { rc = -1; } obs.counters["app.userbuf_write_after_death"]++;
        } else { rc = e.app_send(pl.data(), pl.size(), op.c & 1); }
        if (rc >= 0) {
            // fragmented by the library into <=16384-byte records; the stream is what matters
            if (early_client) { obs.early_sent.push_back(pl); obs.early_write_ok++; obs.counters["early.client_write_ok"]++; }
            else { obs.sent[dir].push_back(pl); }
            if (was_dead) { obs.encode_ok_after_death[role]++; }
            else if (e.app_closed) { obs.counters["encode_ok_after_own_close"]++; obs.encode_ok_after_death[role]++; }
            if (!complete_before && !early_client && !early_server) { obs.encode_ok_before_complete[role]++; }
            if (early_server) { obs.counters["early.server_half_rtt_write"]++; }
        }
        after_event();
        w.collect(DIR_C2S); w.collect(DIR_S2C);
    } else if (op.k == "early_send") {
        // TLS 1.3 client writes application data before the handshake completed (0-RTT): legitimate only while the library says the
        // ticket it resumes with permits early data
        MxEndpoint &e = *w.cli;
        if (!e.alive() || e.is_complete()) { return; }
        vsim_set_node(e.node);
        int permitted = matrixSslGetMaxEarlyData(e.ssl);
        size_t len = (size_t) (op.b > 0 ? op.b : 1); if (len > 16000) { len = 16000; }
        Bytes pl = tagged_payload(0, 900 + (int) obs.early_sent.size() + encode_attempts++, len);
        int rc = e.app_send(pl.data(), pl.size(), (op.c & 1) != 0);
        if (rc >= 0) { obs.early_sent.push_back(pl); obs.early_write_ok++; obs.counters["early.client_write_ok"]++; if (permitted <= 0) { obs.early_write_unpermitted++; } }
        else { obs.early_write_refused++; obs.counters["early.client_write_refused"]++; }
        after_event();
        w.collect(DIR_C2S); w.collect(DIR_S2C);
    } else if (op.k == "arm") {
        armed[dir].on = true; armed[dir].kind = op.s; armed[dir].a = op.b; armed[dir].b = op.c; armed[dir].skip = op.d > 0 ? op.d : 0;
    } else if (op.k == "inject") {
        bool is_mod = false; std::string kind;
        Bytes b = craft(dir, op, is_mod, kind);
        if (b.empty()) { obs.counters["fault_not_fired"]++; return; }
        obs.counters["fault." + kind]++;
        obs.fault_fired[dir] = true;
        w.collect(DIR_C2S); w.collect(DIR_S2C);
        if (!g_q[dir].empty() && !g_q[dir].front().tampered && g_q[dir].front().b == b) {
            // the "injected" bytes are exactly the next honest unit still in flight: delivering them first changes nothing,
            // the honest copy that follows is then the duplicate
            Unit honest = g_q[dir].front(); g_q[dir].pop_front();
            Unit dup; dup.b = b; dup.tampered = true; dup.kind = "dup"; dup.is_mod = obs.hs_done && !pc.dtls();
            g_q[dir].push_front(dup);
            hand_to_receiver(dir, honest.b, false, "", false);
            return;
        }
        if (op.d & 1) {
            // behind whatever is already queued
            Unit u; u.b = b; u.tampered = true; u.kind = kind; u.is_mod = false;
            g_q[dir].push_back(u);
        } else {
            hand_to_receiver(dir, b, true, kind, false);
        }
    } else if (op.k == "close") {
        MxEndpoint &e = w.ep(dir);
        if (e.alive()) { e.app_close(); after_event(); w.collect(DIR_C2S); w.collect(DIR_S2C); }
    } else if (op.k == "hreq") {
        // the server asks for renegotiation; a client built without it answers with a no_renegotiation WARNING and the connection goes on
        MxEndpoint &e = *w.srv;
        if (e.alive() && e.is_complete() && !suite_is_tls13((uint16_t) e.negotiated_suite())) { if (e.hello_request() >= 0) { obs.counters["probe.hello_request_sent"]++; } after_event(); w.collect(DIR_C2S); w.collect(DIR_S2C); }
    } else if (op.k == "timer") {
        // DTLS application resend timer fires on one endpoint (alive or dead): with an empty output buffer the library rebuilds its last flight
        MxEndpoint &e = w.ep(dir);
        if (pc.dtls() && e.alive()) { vsim_clock_advance_ms(1000); if (e.dtls_timer() > 0) { e.wants_send = true; obs.counters["timer_resend"]++; } obs.counters["timer_fired"]++; after_event(); w.collect(DIR_C2S); w.collect(DIR_S2C); after_event(); }
    } else if (op.k == "advance") {
        vsim_clock_advance_ms(op.a);
    } else if (op.k == "ptmut") {
        // byzantine sender (direction's sender): edit the plaintext of its nth next AEAD seal
        vsim_pt_mutate(w.ep(dir).node, (int) (op.b % 8), op.c, (int) (1 + op.d % 3), (int) ((op.d >> 2) & 3), (uint32_t) ((op.d >> 4) & 0xffffff));
        obs.counters["fault.ptmut_armed"]++;
    }
}

void ProtoRun::run() {
    std::deque<Unit> q[2];
    g_q = q;
    vsim_probe_set(probe_cb, this);
    vsim_set_node(NODE_HARNESS);
    matrixDtlsSetPmtu((int) plan.get("pmtu", 1500));   // process-global in the library: every run states it
    if (!w.setup(pc)) { setup_failed = true; setup_detail = "key setup rc=" + std::to_string(w.setup_rc); g_q = nullptr; return; }
    w.filter = [this](Record &r, std::vector<Bytes> &out) { filter_record(r, out); };
    // sibling session (same cfg, other keys) for cross-session injection, and - when resumption is asked for - the
    // session that populates the client's durable resumption state
    bool want_sibling = plan.get("sibling") != 0 || plan.get("resume") != 0;
    if (want_sibling) {
        captured_reset = true; ccs_emitted[0] = ccs_emitted[1] = false;
        w.pc.max_early_data = (int) plan.get("early1", plan.get("early"));     // the connection that issues the ticket may use another early-data limit
        if (!w.connect()) { setup_failed = true; setup_detail = "sibling connect failed"; g_q = nullptr; return; }
        audit.add_session(w.cli->ssl, vsim_sizeof_ssl(), w.cli->node, pc.dtls()); audit.add_session(w.srv->ssl, vsim_sizeof_ssl(), w.srv->node, pc.dtls());
        deliver_all();
        bool ok = w.cli->is_complete() && w.srv->is_complete();
        if (ok) {
            Bytes a = tagged_payload(0, 200, 48), b = tagged_payload(1, 201, 48);
            w.cli->app_send(a.data(), a.size()); w.srv->app_send(b.data(), b.size());
            deliver_all();
            if (plan.get("resume")) { w.cli->app_close(); deliver_all(); }
            if (plan.get("rotate") && pc.tickets) {
                // the server's ticket key is rotated between the connections: the held ticket no longer decrypts, the next handshake is a full one that re-issues a ticket
                unsigned char name[16], sym[32], mac[32];
                vsim_set_node(NODE_SERVER);
                ticket_key_material(pc.ticket_key_id, name, sym, mac);
                int rc1 = matrixSslDeleteSessionTicketKey(w.skeys, name);
                ticket_key_material(pc.ticket_key_id + 1, name, sym, mac);
                int rc2 = matrixSslLoadSessionTicketKeys(w.skeys, name, sym, 32, mac, 32);
                obs.counters[rc1 >= 0 && rc2 >= 0 ? "ticket_key_rotated" : "ticket_key_rotate_failed"]++;
                vsim_set_node(NODE_HARNESS);
            }
        }
        for (int d = 0; d < 2; d++) { sibling[d] = w.captured[d]; q[d].clear(); }
        obs.counters[ok ? "sibling_ok" : "sibling_failed"]++;
        if (!ok) { setup_failed = true; setup_detail = "sibling/first handshake failed (harness control)"; g_q = nullptr; return; }
        // reset observations: the run proper starts now
        ProtoObs fresh; fresh.counters = obs.counters; obs = fresh;
    }
    captured_reset = true;
    armed[0].on = armed[1].on = false; pending_gap[0] = pending_gap[1] = false; swap_pending[0] = swap_pending[1] = false;
    next_honest[0] = next_honest[1] = 0; ccs_emitted[0] = ccs_emitted[1] = false;
    w.pc.max_early_data = (int) plan.get("early");
    if (plan.get("resume") && plan.get("tkcut") > 0 && w.sid) {
        // the client (or whoever replays its ClientHello) presents only the first N bytes of the RFC 5077 ticket it was issued:
        // key name intact, everything behind it cut short
        int idl = 0, tl = 0, hp = 0; unsigned int cid = 0;
        vsim_sid_info((struct sslSessionId *) w.sid, &idl, &tl, &hp, &cid);
        int n = (int) plan.get("tkcut");
        if (tl > 0 && n < tl) { vsim_sid_set_ticket_len((struct sslSessionId *) w.sid, n); obs.counters["fault.ticket_cut_short"]++; }
    }
    if (!w.connect(plan.get("resume") != 0)) { setup_failed = true; setup_detail = "connect failed cli=" + std::to_string(w.cli ? w.cli->create_rc : 0) + " srv=" + std::to_string(w.srv ? w.srv->create_rc : 0); g_q = nullptr; return; }
    if (on_api) { w.cli->on_api = on_api; w.srv->on_api = on_api; }
    split = (int) plan.get("split");
    audit.sessions.clear();
    audit.add_session(w.cli->ssl, vsim_sizeof_ssl(), w.cli->node, pc.dtls()); audit.add_session(w.srv->ssl, vsim_sizeof_ssl(), w.srv->node, pc.dtls());
    for (auto &op : plan.ops) { do_op(op); }
    // final flush so late outputs of dead endpoints are audited
    w.collect(DIR_C2S); w.collect(DIR_S2C);
    after_event();
    // TLS 1.3 seal audit after death: every record sealed by a dead node must be an alert
    for (int role = 0; role < 2; role++) {
        if (!obs.death[role].dead) { continue; }
    }
    g_q = nullptr;
}

uint64_t ProtoRun::fingerprint() {
    Fingerprint f;
    f.add(w.fingerprint());
    for (int d = 0; d < 2; d++) { f.add(obs.tampered[d]); f.add(obs.delivered_before_tamper[d]); f.add(obs.death[d].dead); f.add(obs.death[d].events_at); }
    f.add(obs.seals.size());
    for (auto &s : obs.seals) { f.add(s.key_id); f.add(s.pt); }
    return f.value();
}

// ------------------------------------------------------------------ cfg generation
static const uint16_t CBC_SHA1[] = { TLS_RSA_WITH_AES_128_CBC_SHA, TLS_RSA_WITH_AES_256_CBC_SHA, TLS_ECDHE_RSA_WITH_AES_128_CBC_SHA, TLS_ECDHE_ECDSA_WITH_AES_128_CBC_SHA,
                                     TLS_ECDHE_ECDSA_WITH_AES_256_CBC_SHA, TLS_ECDH_ECDSA_WITH_AES_128_CBC_SHA, TLS_ECDH_RSA_WITH_AES_128_CBC_SHA, TLS_PSK_WITH_AES_128_CBC_SHA, TLS_PSK_WITH_AES_256_CBC_SHA };
static const uint16_t TLS12_ONLY[] = { TLS_RSA_WITH_AES_128_CBC_SHA256, TLS_RSA_WITH_AES_256_CBC_SHA256, TLS_RSA_WITH_AES_128_GCM_SHA256, TLS_RSA_WITH_AES_256_GCM_SHA384,
                                       TLS_ECDHE_RSA_WITH_AES_128_CBC_SHA256, TLS_ECDHE_RSA_WITH_AES_256_CBC_SHA384, TLS_ECDHE_RSA_WITH_AES_128_GCM_SHA256, TLS_ECDHE_RSA_WITH_AES_256_GCM_SHA384,
                                       TLS_ECDHE_ECDSA_WITH_AES_128_CBC_SHA256, TLS_ECDHE_ECDSA_WITH_AES_256_CBC_SHA384, TLS_ECDHE_ECDSA_WITH_AES_128_GCM_SHA256, TLS_ECDHE_ECDSA_WITH_AES_256_GCM_SHA384,
                                       TLS_ECDH_ECDSA_WITH_AES_128_GCM_SHA256, TLS_ECDH_RSA_WITH_AES_128_GCM_SHA256, TLS_PSK_WITH_AES_128_CBC_SHA256 };

void gen_pair_cfg(Rng &r, Plan &p, bool allow_dtls, bool allow_tls13) {
    int ver;
    do { ver = (int) r.below(5); } while ((!allow_dtls && ver >= 3) || (!allow_tls13 && ver == 2));
    p.cfg["ver"] = ver;
    if (ver == 2) {
        p.cfg["suite"] = all_tls13_suites()[r.below(3)];
        static const int ids[] = { KK_RSA2048, KK_EC256, KK_EC256, KK_EC384, KK_ED25519 };
        p.cfg["sid_kind"] = ids[r.below(5)];
    } else {
        bool v12 = ver == 1 || ver == 4;
        uint16_t s;
        if (v12 && r.chance(2, 3)) { s = TLS12_ONLY[r.below(sizeof TLS12_ONLY / sizeof TLS12_ONLY[0])]; }
        else { s = CBC_SHA1[r.below(sizeof CBC_SHA1 / sizeof CBC_SHA1[0])]; }
        p.cfg["suite"] = s;
    }
    bool psk = suite_auth_kind((uint16_t) p.get("suite")) == KK_PSK_ONLY;
    if (!psk && r.chance(1, 5)) { p.cfg["cauth"] = r.chance(1, 2) ? KK_RSA2048 : KK_EC256; }
    if (ver < 3 && r.chance(1, 4)) { p.cfg["tickets"] = 1; }
}

std::string cfg_label(const Plan &p) {
    PairCfg pc = paircfg_from_plan(p);
    return std::string(ver_name(pc.version)) + "," + suite_name((uint16_t) p.get("suite"));
}
