#ifndef VSIM_KEYS_H
#define VSIM_KEYS_H
#include <stddef.h>
#ifdef __cplusplus
extern "C" {
#endif
struct vsim_keymat { const unsigned char *cert; size_t certLen; const unsigned char *key; size_t keyLen; const unsigned char *ca; size_t caLen; };
int vsim_keymat(int kind, struct vsim_keymat *m);
int vsim_ocsp_blob(int which, const unsigned char **p, size_t *n);
void vsim_pem_bundle(const unsigned char **certs, size_t *certsLen, const unsigned char **key, size_t *keyLen);
int vsim_psk_count(void);
void vsim_psk_get(int i, const unsigned char **id, int *idLen, const unsigned char **key, int *keyLen);
void vsim_tls13_psk(const unsigned char **key, int *keyLen, const unsigned char **id, int *idLen);
#ifdef __cplusplus
}
#endif
#endif
