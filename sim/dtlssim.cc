#include "dtlssim.h"
#include "peek.h"

static const int64_t LATENCY_MS = 10;
static const int64_t TIMER_BASE_MS = 1000, TIMER_MAX_MS = 60000;

DtlsSim::DtlsSim(const Plan &p) : plan(p) {
    pc = paircfg_from_plan(p);
    pmtu = (int) p.get("pmtu", 1500);
    speak = (int) p.get("speak", 0);
    for (auto &op : p.ops) {
        if (op.k == "fate") { DgFate f; f.kind = (int) op.b; f.a = op.c; fates[(int) op.a] = f; }
    }
}
DtlsSim::~DtlsSim() { vsim_probe_set(nullptr, nullptr); }
static void dtls_probe_cb(const vsim_probe_t *p, void *arg) { ((DtlsSim *) arg)->audit.on_probe(p); }

std::string DtlsSim::record_kind(const Record &r) {
    if (r.type == 20) { return "ccs"; }
    if (r.type == 21) { return "alert"; }
    if (r.type == 23) { return "appdata"; }
    if (r.type == 22) { return r.epoch == 0 ? std::string("hs_") + hs_type_name(r.raw.size() > r.hdr ? r.raw[r.hdr] : -1) : "finished_flight"; }
    return "other";
}

bool DtlsSim::start() {
    vsim_set_node(NODE_HARNESS);
    matrixDtlsSetPmtu(pmtu);
    if (!w.setup(pc)) { setup_failed = true; setup_detail = "key setup rc=" + std::to_string(w.setup_rc); return false; }
    if (plan.get("resume")) {
        // first connection, fault-free, in-order: populates the session cache and the client's session id
        if (!w.connect()) { setup_failed = true; setup_detail = "first connect failed"; return false; }
        if (!w.handshake()) { setup_failed = true; setup_detail = "first (fault-free) handshake failed"; return false; }
        Bytes a = tagged_payload(0, 250, 20); w.cli->app_send(a.data(), a.size()); w.pump();
        w.cli->app_close(); w.pump();
        w.close_sessions();
    }
    if (!w.connect(plan.get("resume") != 0)) { setup_failed = true; setup_detail = "connect failed"; return false; }
    audit.add_session(w.cli->ssl, vsim_sizeof_ssl(), w.cli->node, true); audit.add_session(w.srv->ssl, vsim_sizeof_ssl(), w.srv->node, true);
    vsim_probe_set(dtls_probe_cb, this);
    now = 0;
    flush(0);
    arm_timer(0);
    return true;
}

void DtlsSim::arm_timer(int role) {
    Timer &t = timer[role];
    t.armed = true; t.at = now + t.timeout; t.gen++;
    DtlsEvent e; e.at = t.at; e.type = 1; e.dir = role; e.a = (int64_t) t.gen;
    push(e);
}

void DtlsSim::flush(int role) {
    MxEndpoint &e = ep(role);
    if (!e.alive()) { return; }
    int dir = role == 0 ? DIR_C2S : DIR_S2C;
    for (int guard = 0; guard < 200 && e.wants_send; guard++) {
        Bytes d = e.pull();
        if (d.empty()) { break; }
        DtlsSentDg s; s.dir = dir; s.emit_index = emit_count++; s.data = d; s.at = now; s.handshake_phase = !e.complete; s.recs = split_records(d, true);
        for (auto &r : s.recs) { if (r.epoch > 0) { audit.on_wire_dtls_record(e.ssl, r.epoch, r.seq, r.raw.data(), r.raw.size()); } }
        { uint32_t suite = e.negotiated_suite(); if (suite && !suite_is_aead((uint16_t) suite)) { for (auto &r : s.recs) { if (r.epoch > 0 && r.type != 20) { audit.on_wire_cbc_record(e.ssl, r.raw.data() + r.hdr, r.body_len(), true); } } } }
        if (complete_event[role] >= 0 && events_run > complete_event[role]) { for (auto &r : s.recs) { if (r.type == 20 || r.type == 22) { post_completion_resend = true; counters["probe.final_flight_resent_after_completion"]++; break; } } }
        emitted.push_back(s);
        DgFate f; auto it = fates.find(s.emit_index);
        if (it != fates.end() && faults_enabled) { f = it->second; }
        DtlsEvent ev; ev.type = 0; ev.dir = dir; ev.data = d; ev.emit_index = s.emit_index;
        switch (f.kind) {
        case FATE_DROP: counters["fault.drop"]++; last_fault_time = now; last_fault_kind = "drop"; fires_after_heal[0] = fires_after_heal[1] = 0; break;
        case FATE_DUP:
            counters["fault.dup"]++; last_fault_kind = "dup";
            ev.at = now + LATENCY_MS; push(ev);
            ev.at = now + LATENCY_MS + (f.a > 0 ? f.a : 1); ev.is_replay = true; push(ev);
            if (ev.at > last_fault_time) { last_fault_time = ev.at; }
            fires_after_heal[0] = fires_after_heal[1] = 0;
            break;
        case FATE_DELAY:
            counters["fault.delay"]++; last_fault_kind = "delay";
            ev.at = now + LATENCY_MS + f.a; push(ev);
            if (ev.at > last_fault_time) { last_fault_time = ev.at; }
            fires_after_heal[0] = fires_after_heal[1] = 0;
            break;
        default: ev.at = now + LATENCY_MS; push(ev); break;
        }
    }
}

void DtlsSim::schedule_app_send(int64_t at, int role, size_t len) {
    DtlsEvent e; e.at = at; e.type = 2; e.dir = role; e.a = (int64_t) len; push(e);
}
void DtlsSim::schedule_replay(int64_t at, int emit_index) {
    DtlsEvent e; e.at = at; e.type = 3; e.a = emit_index; push(e);
}

void DtlsSim::run_until(int64_t t_end, int max_events) {
    while (!q.empty()) {
        DtlsEvent e = q.top();
        if (e.at > t_end) { break; }
        if (events_run >= max_events) { event_cap_hit = true; break; }
        q.pop();
        events_run++;
        if (e.at > now) { vsim_clock_advance_ms(e.at - now); now = e.at; }
        switch (e.type) {
        case 0: {   // datagram arrives
            int rrole = e.dir == DIR_C2S ? 1 : 0;
            MxEndpoint &r = ep(rrole);
            if (!r.alive()) { break; }
            bool was_complete = r.complete;
            size_t before = r.delivered.size();
            r.feed(e.data.data(), e.data.size());
            if (e.is_replay) { counters["replayed_datagrams_delivered"]++; }
            if (r.delivered.size() > before) { counters["app_datagrams_delivered"] += (int64_t) (r.delivered.size() - before); }
            if (!was_complete && r.is_complete()) { complete_time[rrole] = now; }
            bool speaks_now = !was_complete && r.is_complete() && (speak & (1 << rrole));
            if (r.wants_send) {
                flush(rrole);
                // this node has sent a flight and now awaits the peer: (re)arm its resend timer with the base timeout
                if (!r.complete) { timer[rrole].timeout = TIMER_BASE_MS; arm_timer(rrole); }
            }
            if (r.complete && complete_time[rrole] < 0) { complete_time[rrole] = now; }
            if (speaks_now) { counters["probe.speaks_on_completion"]++; schedule_app_send(now, rrole, 21); }
            for (int k = 0; k < 2; k++) { if (ep(k).complete && complete_event[k] < 0) { complete_event[k] = events_run; } }
            break;
        }
        case 1: {   // resend timer
            int role = e.dir; Timer &t = timer[role];
            if ((uint64_t) e.a != t.gen || !t.armed) { break; }   // stale
            MxEndpoint &n = ep(role);
            if (!n.alive() || n.complete || n.is_dead()) { t.armed = false; break; }
            t.fires++; counters["timer_fired"]++;
            if (now > last_fault_time) { fires_after_heal[role]++; }
            int rc = n.dtls_timer();
            if (rc > 0) { n.wants_send = true; flush(role); counters["flight_resent"]++; }
            else { counters["timer_no_resend"]++; }
            t.timeout = t.timeout * 2 > TIMER_MAX_MS ? TIMER_MAX_MS : t.timeout * 2;
            arm_timer(role);
            break;
        }
        case 2: {   // application sends a datagram
            int role = e.dir; MxEndpoint &n = ep(role);
            if (!n.alive() || !n.is_complete() || n.is_dead()) { counters["app_send_skipped"]++; break; }
            int dir = role == 0 ? DIR_C2S : DIR_S2C;
            Bytes pl = tagged_payload(dir, (int) app_sent[dir].size(), (size_t) e.a);
            int rc = n.app_send(pl.data(), pl.size());
            if (rc >= 0) { app_sent[dir].push_back(pl); flush(role); } else { counters["app_send_failed"]++; }
            break;
        }
        case 3: {   // the network replays a datagram it has carried before
            if (emitted.empty()) { counters["fault_not_fired"]++; break; }
            const DtlsSentDg &s = emitted[(size_t) ((uint64_t) e.a % emitted.size())];
            DtlsEvent d; d.type = 0; d.dir = s.dir; d.data = s.data; d.at = now; d.is_replay = true; d.emit_index = s.emit_index;
            counters["fault.replay"]++; last_fault_time = now; last_fault_kind = "replay"; fires_after_heal[0] = fires_after_heal[1] = 0;
            last_replayed_kind = s.recs.empty() ? "empty" : record_kind(s.recs.back());
            counters["fault.replay." + last_replayed_kind]++;
            MxEndpoint &r = ep(s.dir == DIR_C2S ? 1 : 0);
            states.push_back(std::string(s.dir == DIR_C2S ? "srv" : "cli") + "," + ver_name(pc.version) + ",hs" + std::to_string(r.hs_state()) + ",replay_" + last_replayed_kind);
            push(d);
            break;
        }
        }
    }
    if (now < t_end && !event_cap_hit) { vsim_clock_advance_ms(t_end - now); now = t_end; }
}

uint64_t DtlsSim::fingerprint() {
    Fingerprint f;
    f.add(w.fingerprint());
    for (auto &s : emitted) { f.add(s.data.data(), s.data.size()); f.add((uint64_t) s.at); }
    f.add((uint64_t) complete_time[0]); f.add((uint64_t) complete_time[1]);
    return f.value();
}

static const int64_t HEAL_BUDGET_MS_ = 600000;
static const int MAX_EVENTS_ = 4000;

bool DtlsSim::run_plan(bool with_probes, size_t *probe_before) {
    for (auto &op : plan.ops) { if (op.k == "hreplay") { schedule_replay(op.a, (int) op.b); } }
    for (int guard = 0; guard < 2000; guard++) {
        bool both = ep(0).complete && ep(1).complete;
        if (both || event_cap_hit) { break; }
        if (ep(0).is_dead() || ep(1).is_dead()) { break; }
        if (now > last_fault_time + HEAL_BUDGET_MS_) { break; }
        if (q.empty()) { break; }
        run_until(now + 2000, MAX_EVENTS_);
    }
    bool both = ep(0).complete && ep(1).complete;
    if (!both) { return false; }
    int64_t t0 = now + 50;
    hs_dgrams = emitted.size();
    for (auto &op : plan.ops) { if (op.k == "afate") { DgFate f; f.kind = (int) op.b; f.a = op.c; fates[(int) hs_dgrams + (int) op.a] = f; } }
    for (auto &op : plan.ops) {
        if (op.k == "app") { size_t cap = (size_t) (pmtu / 2 - 40); schedule_app_send(t0 + op.a, (int) (op.b & 1), 1 + (size_t) op.c % cap); }   // one record per datagram: stay well inside the PMTU
        else if (op.k == "areplay") {
            // c: 0 any datagram so far, 1 application-phase datagrams, 2 handshake-phase datagrams (incl. the Finished flights)
            int idx = (int) op.b;
            if (op.c == 2) { idx = hs_dgrams ? (int) ((uint64_t) op.b % hs_dgrams) : 0; }
            else if (op.c == 1) { idx = (int) hs_dgrams + (int) ((uint64_t) op.b % 8); }
            schedule_replay(t0 + op.a, idx);
        }
    }
    run_until(t0 + 1500 + 5000, MAX_EVENTS_);   // longer than any injected delay
    dead_after_app = ep(0).is_dead() || ep(1).is_dead();
    if (probe_before) { probe_before[0] = ep(0).delivered.size(); probe_before[1] = ep(1).delivered.size(); }
    if (with_probes && !dead_after_app) {
        faults_enabled = false;
        schedule_app_send(now + 10, 0, 33); schedule_app_send(now + 20, 1, 34);
        run_until(now + 6000, MAX_EVENTS_);
    }
    return true;
}
