// MxEndpoint: one MatrixSSL session driven through the documented buffer API only.
#pragma once
#include "util.h"
#include "seams.h"
extern "C" {
#include "matrixssl/matrixsslApi.h"
}
#include <functional>

enum { NODE_HARNESS = 0, NODE_CLIENT = 1, NODE_SERVER = 2, NODE_CLIENT2 = 3, NODE_SERVER2 = 4 };

// key material kinds
enum KeyKind { KK_NONE = 0, KK_RSA2048, KK_EC256, KK_EC384, KK_ECDH_RSA, KK_ED25519, KK_RSA1024, KK_EC521, KK_PSK_ONLY, KK_EC384_SHA384 /* P-384 identity whose certificate (and CA) are signed with ecdsa-with-SHA384 */,
               KK_EC256_PATHLEN /* minted P-256 chain leaf + sub CA whose root says pathlen:0 (sim/assets/pathlen_chain.h): must never validate */ };
const char *keykind_name(int k);

struct KeySpec {
    int identity = KK_NONE;          // own certificate + key
    unsigned ca_mask = 0;            // bit (1<<KeyKind) -> trust that kind's CA
    bool psk = false;                // load the test PSK (TLS<=1.2 PSK suites)
    bool ticket_keys = false;        // server: load a session-ticket key (RFC 5077 tickets and TLS 1.3 PSK tickets)
    int ticket_key_id = 1;           // which deterministic ticket key
    bool tls13_psk = false;          // load an external TLS 1.3 PSK
    int tls13_psk_cipher = 0;        // cipher suite bound to that PSK (needed for early data under it); 0 = unbound
    int forge_cert_mode = 0;         // with forge_cert_sig: 0 = one bit of the issuer's signature flipped; 1 = issuer name changed by one character and the signature
                                     // field replaced by the trusted CA certificate's own signature bytes (public data: no key is needed to make such a certificate)
    int ocsp = 0;                    // server: load a stapled OCSP response for the identity (1 = 'good' blob of the P-256 identity, 2 = 'revoked')
    bool cert_is_ca = false;         // byzantine: the 'identity' certificate is the (public) CA certificate itself, loaded with an unrelated private key
    bool chain = false;              // the identity is sent as a two-element chain: leaf followed by its issuer's certificate
    bool forge_cert_sig = false;     // identity certificate with one bit of the issuer's signature flipped (key still matches): a forged certificate
};
sslKeys_t *load_keys(const KeySpec &ks, int *rc_out = nullptr);
void ticket_key_material(int id, unsigned char name[16], unsigned char sym[32], unsigned char mac[32]);

enum CbPolicy { CB_NONE = 0, CB_STRICT = 1, CB_ALLOW_ALL = 2, CB_ALLOW_ONE = 3 };

struct EpCfg {
    bool server = false;
    bool dtls = false;
    std::vector<uint32_t> versions;       // psProtocolVersion_t values, priority order; empty = library default
    std::vector<uint16_t> suites;         // client: offered suites (empty = all compiled in)
    int cb_policy = CB_ALLOW_ALL;
    int cb_allow_alert = 0;               // for CB_ALLOW_ONE
    std::string expected_name;            // client: "" = none
    bool client_auth = false;             // server: request a client certificate
    bool ticket_resumption = false;       // client: offer RFC 5077 ticket extension
    int ems = 0;                          // 0 default, -1 disable, 1 require (server)
    bool fallback_scsv = false;
    int max_early_data = 0;               // server: tls13SessionMaxEarlyData
    std::vector<uint16_t> groups;         // TLS 1.3 / ECDHE groups (named group ids)
    int key_shares = 0;
    std::vector<uint16_t> sigalgs;
    bool ocsp_stapling = false;           // client: ask for a stapled OCSP response (status_request); this build is must-staple: an answered request must be followed by CertificateStatus
    int send_sni = 0;                     // client: 1 = put the expected name into a server_name extension (as applications do); 2 = server_name + ALPN (a two-entry extension list); 3 = + a private extension
    int max_frag = 0;                     // client: request this max_fragment_length (512, 1024, 2048, 4096); 0 = none
    int ec_flags = 0;
    sslSessionId_t *sid = nullptr;        // client: durable resumption state
    int node = NODE_CLIENT;
};

struct ApiEvent {
    const char *api; int rc; uint32_t len; uint64_t digest;
};

struct AlertSeen { int level; int desc; };

class MxEndpoint {
  public:
    ssl_t *ssl = nullptr;
    EpCfg cfg;
    int node = NODE_CLIENT;
    // observable outcome
    std::vector<Bytes> delivered;         // every MATRIXSSL_APP_DATA chunk, in order
    std::vector<int> delivered_complete;  // HandshakeIsComplete() at the time of each delivery
    std::vector<AlertSeen> alerts_in;     // alerts reported with MATRIXSSL_RECEIVED_ALERT
    std::vector<ApiEvent> events;
    bool complete = false;                // HANDSHAKE_COMPLETE seen or IsComplete() observed true
    int complete_event = -1;
    long complete_pending = -1;      // bytes of the output buffer still unsent when SentData reported HANDSHAKE_COMPLETE (-1: not reported by SentData)
    bool got_error = false;               // an API call returned < 0 (D1)
    int first_error = 0;
    int first_error_alive = 0;            // first negative return while the session was not yet dead by another cause
    bool got_fatal_alert = false;         // D2
    bool got_close_notify = false;
    bool request_close = false;           // SentData returned REQUEST_CLOSE (D3)
    bool app_closed = false;              // D4
    bool wants_send = false;
    int create_rc = 0;
    // cert callback log
    int cb_calls = 0; int cb_last_alert = -1; int cb_last_ret = 0; std::vector<int> cb_alerts;
    Fingerprint fp;
    // replay log (C18): exact inbound bytes, outbound bytes and application actions keyed to the inbound position
    struct AppAction { size_t pos; int kind; Bytes payload; bool writebuf; };   // kind 0 send, 1 close
    Bytes in_log, out_log; std::vector<AppAction> actions; bool keep_log = false;
    std::vector<size_t> barriers;   // inbound positions at which output was handed to the transport: later inbound bytes may causally depend on it
    std::function<void(MxEndpoint &, const char *what)> on_api;   // invariant hook, called after every API return

    ~MxEndpoint() { destroy(); }
    int create(const EpCfg &c, const sslKeys_t *keys);
    void destroy();
    bool alive() const { return ssl != nullptr; }
    // network input (TLS: arbitrary chunk; DTLS: exactly one datagram)
    int feed(const unsigned char *p, size_t n);
    // take up to max bytes of pending output (TLS) / one datagram (DTLS). accepted<avail models a partial send.
    Bytes pull(size_t max = (size_t) -1);
    size_t pending_out();
    int dtls_timer();                     // resend timer fired: returns number of bytes now pending
    int app_send(const unsigned char *p, size_t n, bool use_writebuf = false);
    int app_close();
    int hello_request();             // server: ask the client to renegotiate (HelloRequest)
    // other application write routes (C15): matrixSslEncodeToUserBuf (ciphertext into a caller buffer), and a write split in two halves
    // around other events - matrixSslGetWritebuf now, matrixSslEncodeWritebuf later
    int app_send_userbuf(const unsigned char *p, size_t n, Bytes *wire);
    int write_begin(size_t n);                    // GetWritebuf; returns room (<= 0: refused)
    int write_commit(const unsigned char *p, size_t n);   // EncodeWritebuf of what write_begin reserved; PS_FAILURE if the reservation is stale
    unsigned char *wb_ptr_ = nullptr; int wb_room_ = 0; const void *wb_outbuf_ = nullptr; int wb_outlen_ = 0;
    bool is_complete();
    bool is_dead() const { return got_error || got_fatal_alert || got_close_notify || request_close || app_closed; }
    bool is_resumed();
    uint32_t negotiated_version();
    uint32_t negotiated_suite();
    int hs_state();
    uint32_t lib_flags();
    void log(const char *api, int rc, uint32_t len = 0, uint64_t digest = 0);
  private:
    int handle_rc(int rc, unsigned char *pt, uint32_t ptlen);
};

// version helpers
uint32_t ver_from_name(const std::string &n);     // "tls1.1" "tls1.2" "tls1.3" "dtls1.0" "dtls1.2"
const char *ver_name(uint32_t v);
const char *suite_name(uint16_t id);
bool suite_is_tls13(uint16_t id);
int suite_auth_kind(uint16_t id);                 // KeyKind the server identity must have (KK_PSK_ONLY for PSK suites)
bool suite_is_aead(uint16_t id);
bool suite_min_tls12(uint16_t id);
const std::vector<uint16_t> &all_tls12_suites();
const std::vector<uint16_t> &all_tls13_suites();

void sim_global_open();     // matrixSslOpen under the seams
void sim_global_close();
