// C06 - a handshake completes only if the handshake/CCS messages received form exactly one legal sequence;
// any missing, repeated, reordered, premature or foreign message is fatal, never a completed handshake.
// (a) man in the middle on the plaintext flights and the CCS record (delete / duplicate / swap / substitute / inject);
// (b) byzantine peer: real MatrixSSL with the guarded skip hook omits a mandatory message, so both transcripts agree and
//     only the receiver's state machine stands between the deviation and completion.
#include "driver.h"
#include "world.h"
#include "peek.h"

enum { DV_NONE = 0, DV_DELETE, DV_DUP, DV_SWAP, DV_SUBST, DV_INJECT, DV_SKIP, DV_FINMUT, DV_HRR, DV_BYZINS, DV_N };
static const char *DV_NAME[] = { "none", "msg_delete", "msg_dup", "msg_swap", "msg_subst", "msg_inject", "peer_skips_msg", "peer_finished_edited", "forged_hello_retry_request", "peer_inserts_msg" };

struct Mode { int ver; uint16_t suite; int kind; int cauth; int resume; int tickets; const char *name; };
static const Mode MODES[] = {
    { 0, TLS_RSA_WITH_AES_128_CBC_SHA, KK_RSA2048, 0, 0, 0, "tls11_rsa" }, { 1, TLS_RSA_WITH_AES_128_GCM_SHA256, KK_RSA2048, 0, 0, 0, "tls12_rsa" },
    { 1, TLS_ECDHE_RSA_WITH_AES_128_GCM_SHA256, KK_RSA2048, 0, 0, 0, "tls12_ecdhe_rsa" }, { 1, TLS_ECDHE_ECDSA_WITH_AES_128_CBC_SHA256, KK_EC256, KK_EC256, 0, 0, "tls12_ecdhe_ecdsa_cauth" },
    { 0, TLS_ECDHE_ECDSA_WITH_AES_128_CBC_SHA, KK_EC256, KK_RSA2048, 0, 0, "tls11_ecdhe_ecdsa_cauth" }, { 1, TLS_RSA_WITH_AES_256_CBC_SHA256, KK_RSA2048, 0, 1, 0, "tls12_rsa_resumed" },
    { 1, TLS_ECDHE_RSA_WITH_AES_256_GCM_SHA384, KK_RSA2048, 0, 0, 1, "tls12_ecdhe_ticket" }, { 1, TLS_RSA_WITH_AES_128_CBC_SHA, KK_RSA2048, 0, 1, 1, "tls12_ticket_resumed" },
    { 1, TLS_PSK_WITH_AES_128_CBC_SHA256, KK_PSK_ONLY, 0, 0, 0, "tls12_psk" }, { 1, TLS_ECDH_ECDSA_WITH_AES_128_GCM_SHA256, KK_EC256, 0, 0, 0, "tls12_ecdh" },
    { 2, TLS_AES_128_GCM_SHA256, KK_EC256, 0, 0, 0, "tls13" }, { 2, TLS_AES_256_GCM_SHA384, KK_RSA2048, KK_EC256, 0, 0, "tls13_cauth" }, { 2, TLS_CHACHA20_POLY1305_SHA256, KK_EC256, 0, 1, 1, "tls13_psk_resumed" },
    { 5, TLS_ECDHE_RSA_WITH_AES_128_GCM_SHA256, KK_RSA2048, 0, 0, 0, "client_tls13_and_12_server_tls12_only" }, { 5, TLS_ECDHE_RSA_WITH_AES_128_CBC_SHA, KK_RSA2048, 0, 0, 0, "client_tls13_and_11_server_tls11_only" },
    { 2, TLS_AES_128_GCM_SHA256, KK_EC256, KK_EC256, 2, 1, "tls13_cauth_unknown_psk_offered" }, { 2, TLS_AES_128_GCM_SHA256, KK_EC256, 0, 2, 1, "tls13_unknown_psk_offered" },
    { 3, TLS_ECDHE_ECDSA_WITH_AES_128_CBC_SHA, KK_EC256, 0, 0, 0, "dtls10_ecdhe" }, { 4, TLS_RSA_WITH_AES_128_GCM_SHA256, KK_RSA2048, KK_RSA2048, 0, 0, "dtls12_rsa_cauth" }, { 4, TLS_ECDHE_RSA_WITH_AES_128_CBC_SHA256, KK_RSA2048, 0, 1, 0, "dtls12_resumed" },
    { 1, TLS_ECDHE_RSA_WITH_AES_128_GCM_SHA256, KK_RSA2048, 0, 1, 1, "tls12_ecdhe_ticket_resumed" }, { 1, TLS_ECDHE_ECDSA_WITH_AES_128_CBC_SHA, KK_EC256, 0, 1, 0, "tls12_ecdhe_ecdsa_resumed" }, { 0, TLS_ECDHE_RSA_WITH_AES_128_CBC_SHA, KK_RSA2048, 0, 1, 1, "tls11_ecdhe_ticket_resumed" },
    // OCSP stapling asked for by the client and answered by the server (must-staple build): CertificateStatus becomes a mandatory message
    { 1, TLS_ECDHE_ECDSA_WITH_AES_128_GCM_SHA256, KK_EC256, 0, 0, 0, "tls12_ecdhe_ocsp_stapled" }, { 1, TLS_ECDH_ECDSA_WITH_AES_128_GCM_SHA256, KK_EC256, 0, 0, 0, "tls12_ecdh_ocsp_stapled" }, { 0, TLS_ECDHE_ECDSA_WITH_AES_128_CBC_SHA, KK_EC256, 0, 0, 0, "tls11_ecdhe_ocsp_stapled" },
};
static const int NMODES = sizeof MODES / sizeof MODES[0];

// messages the byzantine peer may omit: (role of the byzantine node, handshake type); all are mandatory in the modes they are used in
struct Skip { int byz_is_server; int type; const char *name; int type2; };
static const Skip SKIPS[] = { { 1, 11, "certificate" }, { 1, 12, "server_key_exchange" }, { 1, 254, "change_cipher_spec" }, { 1, 15, "certificate_verify" }, { 1, 8, "encrypted_extensions" },
                              { 0, 15, "certificate_verify" }, { 0, 254, "change_cipher_spec" }, { 0, 11, "certificate" },
                              { 0, 11, "certificate_and_certificate_verify", 15 }, { 1, 11, "certificate_and_certificate_verify", 15 }, { 1, 14, "server_hello_done" }, { 1, 22, "certificate_status" } };
static const int NSKIPS = sizeof SKIPS / sizeof SKIPS[0];

// messages a byzantine TLS <= 1.2 peer may ADD (accounted in its own transcript too): before which of its own messages, and what
struct InsAt { int byz_is_server; int before; const char *name; };
static const InsAt INS_AT[] = { { 1, 254, "before_ccs" }, { 1, 12, "before_server_key_exchange" }, { 1, 11, "before_certificate" }, { 0, 254, "before_ccs" }, { 0, 16, "before_client_key_exchange" }, { 0, 15, "before_certificate_verify" } };
static const int NINS_AT = sizeof INS_AT / sizeof INS_AT[0];
static const int INS_MSG[] = { 11, 12, 14, 16, 13 };     // taken from an earlier full handshake of the same pair (14: an empty ServerHelloDone)
static const int NINS_MSG = 5;

static Plan mk(int mode, int dv, int dir, int k, int a, uint64_t seed) {
    Plan p; p.seed = seed; p.cfg["mode"] = mode; p.cfg["dv"] = dv; p.cfg["dir"] = dir; p.cfg["k"] = k; p.cfg["a"] = a; return p;
}
static Plan c06_gen(uint64_t seed, int tier, uint64_t index) {
    (void) tier; (void) index;
    Rng r(seed);
    int dv = 1 + (int) r.below(DV_N - 1);
    return mk((int) r.below(NMODES), dv, (int) r.below(2), (int) r.below(dv == DV_SKIP ? NSKIPS : dv == DV_FINMUT ? 4 : dv == DV_BYZINS ? NINS_AT : 9), (int) r.below(64), seed);
}
// all single-step deviations of every mode
static std::vector<Plan> c06_fixed(int tier) {
    std::vector<Plan> v;
    for (int m = 0; m < NMODES; m++) {
        v.push_back(mk(m, DV_NONE, 0, 0, 0, 60000 + v.size()));
        for (int dir = 0; dir < 2; dir++) {
            for (int k = 0; k < 8; k++) {
                v.push_back(mk(m, DV_DELETE, dir, k, 0, 60000 + v.size()));
                v.push_back(mk(m, DV_DUP, dir, k, 0, 60000 + v.size()));
                v.push_back(mk(m, DV_SWAP, dir, k, 0, 60000 + v.size()));
                if (tier) { for (int a = 0; a < 6; a++) { v.push_back(mk(m, DV_SUBST, dir, k, a, 60000 + v.size())); v.push_back(mk(m, DV_INJECT, dir, k, a, 60000 + v.size())); } }
                else { v.push_back(mk(m, DV_SUBST, dir, k, k + 1, 60000 + v.size())); v.push_back(mk(m, DV_INJECT, dir, k, k, 60000 + v.size())); }
            }
        }
        for (int s = 0; s < NSKIPS; s++) { v.push_back(mk(m, DV_SKIP, 0, s, 0, 60000 + v.size())); }
        for (int dir = 0; dir < 2; dir++) { for (int k = 0; k < 4; k++) { for (int a = 0; a < (k == 3 ? 4 : 1); a++) { v.push_back(mk(m, DV_FINMUT, dir, k, a * 29 + 3, 60000 + v.size())); } } }
        if (MODES[m].ver == 5 || MODES[m].ver == 1 || MODES[m].ver == 0) { for (int a = 0; a < 4; a++) { v.push_back(mk(m, DV_HRR, 0, 0, a, 60000 + v.size())); } }
        if (MODES[m].ver == 1 || MODES[m].ver == 0) { for (int k = 0; k < NINS_AT; k++) { for (int a = 0; a < NINS_MSG; a++) { v.push_back(mk(m, DV_BYZINS, 0, k, a, 60000 + v.size())); } } }
    }
    return v;
}

static Bytes hs_record(uint16_t ver, bool dtls, uint8_t type, size_t len, uint16_t msg_seq, uint64_t rec_seq, Rng &g) {
    Bytes body = { type, 0, (unsigned char) (len >> 8), (unsigned char) len };
    if (dtls) { body.insert(body.end(), { (unsigned char) (msg_seq >> 8), (unsigned char) msg_seq, 0, 0, 0, 0, (unsigned char) (len >> 8), (unsigned char) len }); }
    for (size_t i = 0; i < len; i++) { body.push_back((unsigned char) g.next()); }
    return make_record(22, ver, body, dtls, 0, rec_seq);
}

static RunResult c06_exec(const Plan &p) {
    RunResult res;
    int mi = (int) ((uint64_t) p.get("mode") % NMODES), dv = (int) ((uint64_t) p.get("dv") % DV_N), ddir = (int) (p.get("dir") & 1), k = (int) p.get("k"), a = (int) p.get("a");
    const Mode &M = MODES[mi];
    vsim_run_reset(p.seed);
    sim_global_open();
    {
        PairCfg pc;
        static const uint32_t V[] = { v_tls_1_1, v_tls_1_2, v_tls_1_3, v_dtls_1_0, v_dtls_1_2 };
        if (M.ver == 5) {
            // the client offers TLS 1.3 and one older version, the server speaks only the older one
            bool t11 = suite_min_tls12(M.suite) ? false : true;
            pc.version = 0; pc.versions_c = { v_tls_1_3, t11 ? v_tls_1_1 : v_tls_1_2 }; pc.versions_s = { t11 ? v_tls_1_1 : v_tls_1_2 };
            pc.suites = { M.suite, (uint16_t) TLS_AES_128_GCM_SHA256 };
        } else { pc.version = V[M.ver]; pc.suites = { M.suite }; }
        if (M.kind == KK_PSK_ONLY) { pc.server_identity = KK_NONE; pc.psk = true; } else { pc.server_identity = M.kind; }
        if (M.cauth) { pc.client_auth = true; pc.client_identity = M.cauth; }
        pc.tickets = M.tickets != 0;
        if (strstr(M.name, "ocsp_stapled")) { pc.ocsp = 1; }
        bool dtls = pc.dtls();
        TlsWorld w; w.record_granular = true;   // every record in a read of its own: a repeated or premature message meets the state machine, not the end of a buffer
        if (!w.setup(pc)) { res.harness_error = true; res.detail = "setup rc=" + std::to_string(w.setup_rc); }
        else {
            bool ok = true;
            std::map<int, Bytes> earlier[2];     // plaintext handshake messages of an earlier full handshake of this pair, by direction and type
            bool byzins = dv == DV_BYZINS && (M.ver == 0 || M.ver == 1);
            if (M.resume || byzins) {
                w.filter = [&](Record &r, std::vector<Bytes> &out) {
                    if (r.type == 22 && r.body_len() >= 4) { const unsigned char *b = r.raw.data() + r.hdr; size_t l = (size_t) b[1] << 16 | (size_t) b[2] << 8 | b[3]; if (l + 4 == r.body_len() && !earlier[r.dir].count(b[0]) && b[0] != 20) { earlier[r.dir][b[0]] = Bytes(b, b + r.body_len()); } }
                    out.push_back(r.raw);
                };
            }
            if (byzins && !M.resume) { ok = w.connect(false) && w.handshake(); w.close_sessions(); }    // a full handshake whose messages the byzantine peer re-uses; leaves no resumable state with the client
            if (M.resume) {   // first connection, undisturbed
                ok = w.connect() && w.handshake();
                if (ok) { Bytes x = tagged_payload(0, 1, 20); w.cli->app_send(x.data(), x.size()); w.pump(); w.cli->app_close(); w.pump(); }
                w.close_sessions();
                if (ok && M.resume == 2) {
                    // the server forgets the key that minted the client's ticket: the PSK the client offers next is unknown to it (full handshake expected)
                    unsigned char name[16], sym[32], mac[32];
                    vsim_set_node(NODE_SERVER);
                    ticket_key_material(7, name, sym, mac); matrixSslLoadSessionTicketKeys(w.skeys, name, sym, 32, mac, 32);
                    ticket_key_material(1, name, sym, mac); matrixSslDeleteSessionTicketKey(w.skeys, name);
                    vsim_set_node(NODE_HARNESS);
                }
            }
            if (!ok) { res.harness_error = true; res.detail = std::string("first handshake failed in mode ") + M.name; }
            else {
                // sibling trace (same mode) for foreign-message substitution: captured from a fault-free run of this very pair later if needed
                bool applied = false; std::string what = "none"; bool benign = false;
                bool byz_wire_pending = false; int byz_dir = 0, byz_before = 0; Bytes byz_msg;
                int hs_index[2] = { 0, 0 };               // index among plaintext handshake + CCS records per direction
                Bytes held; bool have_held = false; bool ccs_seen[2] = { false, false };
                std::vector<Bytes> seen[2];
                Rng g(derive(p.seed, "c06"));
                w.filter = [&](Record &r, std::vector<Bytes> &out) {
                    bool plain_hs = (r.type == 22 || r.type == 20) && (dtls ? r.epoch == 0 : true);
                    // TLS: handshake records after the sender's CCS are protected; the adversary cannot parse them but can still delete/duplicate/swap them
                    if (!plain_hs) { out.push_back(r.raw); return; }
                    int d = r.dir; int idx = hs_index[d]++;
                    bool prot = dtls ? false : ccs_seen[r.dir];
                    uint8_t mtype = r.type == 20 ? 254 : prot ? 20 /* the protected record after CCS is Finished */ : (r.body_len() ? r.raw[r.hdr] : 255);
                    if (r.type == 20) { ccs_seen[r.dir] = true; }
                    if (byz_wire_pending && d == byz_dir && mtype == byz_before && vsim_hs_inserted() && !prot) {
                        out.push_back(make_record(22, r.ver, byz_msg)); byz_wire_pending = false; applied = true;
                    }
                    if (have_held && d == ddir) { out.push_back(r.raw); out.push_back(held); have_held = false; seen[d].push_back(r.raw); return; }
                    if (dv == DV_HRR && !applied && d == DIR_C2S && idx == 0 && mtype == 1 && !dtls) {
                        // the man in the middle swallows the first ClientHello and answers it himself with a HelloRetryRequest (plaintext, no key
                        // needed); the second ClientHello goes on to the server, which never sees the first one
                        const unsigned char *b = r.raw.data() + r.hdr; size_t n = r.body_len();
                        if (n > 4 + 2 + 32 + 1 && (size_t) b[38] <= 32 && n > 39 + (size_t) b[38]) {
                            static const unsigned char HRR[32] = { 0xCF,0x21,0xAD,0x74,0xE5,0x9A,0x61,0x11,0xBE,0x1D,0x8C,0x02,0x1E,0x65,0xB8,0x91,0xC2,0xA2,0x11,0x16,0x7A,0xBB,0x8C,0x5E,0x07,0x9E,0x09,0xE2,0xC8,0xA8,0x33,0x9C };
                            static const uint16_t GRP[] = { 24, 25, 29, 23 };
                            Bytes body = { 0x03, 0x03 }; body.insert(body.end(), HRR, HRR + 32);
                            body.push_back(b[38]); body.insert(body.end(), b + 39, b + 39 + b[38]);
                            body.push_back(0x13); body.push_back(0x01); body.push_back(0);
                            uint16_t grp = GRP[(size_t) a % 4];
                            Bytes ext = { 0x00, 0x2b, 0x00, 0x02, 0x03, 0x04, 0x00, 0x33, 0x00, 0x02, (unsigned char) (grp >> 8), (unsigned char) grp };
                            body.push_back((unsigned char) (ext.size() >> 8)); body.push_back((unsigned char) ext.size()); body.insert(body.end(), ext.begin(), ext.end());
                            Bytes msg = { 2, 0, (unsigned char) (body.size() >> 8), (unsigned char) body.size() }; msg.insert(msg.end(), body.begin(), body.end());
                            w.inject(DIR_S2C, make_record(22, 0x0303, msg, false, 0, 0));
                            applied = true; what = "forged_hello_retry_request:first_client_hello_swallowed";
                            seen[d].push_back(r.raw);
                            return;     // ClientHello1 is not forwarded
                        }
                    }
                    if (dv >= DV_DELETE && dv <= DV_INJECT && !applied && d == ddir && idx == k) {
                        applied = true;
                        what = std::string(DV_NAME[dv]) + ":" + (mtype == 254 ? "ccs" : hs_type_name(mtype));
                        bool tls13 = M.ver == 2;
                        switch (dv) {
                        case DV_DELETE: if (tls13 && mtype == 254) { benign = true; } break;                                             // TLS 1.3 compatibility CCS may be absent
                        case DV_DUP: out.push_back(r.raw); out.push_back(r.raw); if (dtls || (tls13 && mtype == 254) || mtype == 20) { benign = true; } break;   /* a copy of the final Finished arrives after a legitimately completed handshake: a post-handshake matter (C02/C15) */   // DTLS absorbs duplicates; TLS 1.3 ignores CCS
                        case DV_SWAP: held = r.raw; have_held = true; if (dtls) { benign = true; } break;                               // DTLS tolerates reordering (and then needs a retransmission)
                        case DV_SUBST: {
                            static const uint8_t T[] = { 0, 2, 11, 12, 13, 14, 15, 16, 20, 4, 1, 22 };
                            uint8_t nt = T[(size_t) a % sizeof T]; if (nt == mtype) { nt = 14; }
                            if (!seen[d].empty() && (a & 1)) { out.push_back(seen[d][(size_t) a % seen[d].size()]); what += "->earlier_message"; }
                            else { out.push_back(hs_record(r.ver, dtls, nt, (size_t) (a % 3) * 16, (uint16_t) idx, r.seq, g)); what += std::string("->") + hs_type_name(nt); }
                            break;
                        }
                        case DV_INJECT: {
                            static const uint8_t T[] = { 254, 20, 0, 1, 4, 22, 14, 16, 15, 13 };
                            uint8_t nt = T[(size_t) a % sizeof T];
                            Bytes inj = nt == 254 ? make_record(20, r.ver, Bytes{ 1 }, dtls, 0, r.seq + 100) : hs_record(r.ver, dtls, nt, nt == 0 ? 0 : 12, (uint16_t) (idx + 20), r.seq + 100, g);
                            what = std::string("msg_inject:") + (nt == 254 ? "ccs" : hs_type_name(nt)) + "_before_" + (mtype == 254 ? "ccs" : hs_type_name(mtype));
                            out.push_back(inj); out.push_back(r.raw);
                            if (tls13 && nt == 254 && (idx > 0 || d == DIR_S2C)) { benign = true; }
                            if (M.ver == 5 && nt == 254 && d == DIR_S2C && idx == 0) { benign = true; }     // a client that offered TLS 1.3 drops a CCS that arrives before it knows the version (RFC 8446, 5)                                                        // CCS after the first ClientHello must be ignored
                            if (!tls13 && nt == 0 && d == DIR_S2C && !dtls) { benign = true; }                                           // a client may ignore HelloRequest
                            if (dtls) { benign = benign || nt == 0; }
                            break;
                        }
                        }
                        seen[d].push_back(r.raw);
                        return;
                    }
                    seen[d].push_back(r.raw);
                    out.push_back(r.raw);
                };
                int byz_node = -1; int rcv_role = ddir == DIR_C2S ? 1 : 0;
                if (dv == DV_SKIP) {
                    const Skip &S = SKIPS[(size_t) k % NSKIPS];
                    byz_node = S.byz_is_server ? NODE_SERVER : NODE_CLIENT; rcv_role = S.byz_is_server ? 0 : 1;
                    vsim_hs_skip(byz_node, S.type, 1); if (S.type2) { vsim_hs_skip_also(S.type2, 1); }
                    what = std::string("peer_skips_msg:") + (S.byz_is_server ? "server_" : "client_") + S.name;
                }
                if (dv == DV_HRR) { rcv_role = 0; }
                if (byzins) {
                    const InsAt &I = INS_AT[(size_t) k % NINS_AT]; int mt = INS_MSG[(size_t) a % NINS_MSG];
                    byz_node = I.byz_is_server ? NODE_SERVER : NODE_CLIENT; rcv_role = I.byz_is_server ? 0 : 1; byz_dir = I.byz_is_server ? DIR_S2C : DIR_C2S; byz_before = I.before;
                    // the added message: one this node (or, failing that, its peer) sent in the earlier handshake; ServerHelloDone is empty anyway
                    if (earlier[byz_dir].count(mt)) { byz_msg = earlier[byz_dir][mt]; } else if (earlier[1 - byz_dir].count(mt)) { byz_msg = earlier[1 - byz_dir][mt]; } else if (mt == 14) { byz_msg = Bytes{ 14, 0, 0, 0 }; }
                    if (!byz_msg.empty() && byz_msg.size() <= 8000) { vsim_hs_insert(byz_node, I.before, byz_msg.data(), byz_msg.size()); byz_wire_pending = true; }
                    what = std::string("peer_inserts_msg:") + (I.byz_is_server ? "server_adds_" : "client_adds_") + hs_type_name(mt) + "_" + I.name;
                    // a CertificateRequest in front of ServerHelloDone-less positions is still a foreign message; none of the added ones is ever legal at these points
                }
                if (dv == DV_FINMUT) {
                    // byzantine peer holding the session keys: its own Finished is edited before it is sealed (AEAD suites: the seam sits at the seal primitive)
                    byz_node = ddir == DIR_C2S ? NODE_CLIENT : NODE_SERVER; rcv_role = ddir == DIR_C2S ? 1 : 0;
                    if (k % 4 < 3) { vsim_pt_short_finished(byz_node, (uint32_t) (k % 4) * 4); what = "peer_finished_edited:verify_data_cut_to_" + std::to_string((k % 4) * 4) + "_bytes"; }
                    else if (M.ver != 2) { vsim_pt_mutate(byz_node, 0, (M.ver >= 3 ? 12 : 4) + a % 12, 1, 3, 1u << (a % 8)); what = "peer_finished_edited:verify_data_bit_flipped"; }
                    else { vsim_pt_short_finished(byz_node, 31); what = "peer_finished_edited:verify_data_cut_by_one_byte"; }
                }
                if (!w.connect(M.resume || !byzins)) { res.harness_error = true; res.detail = "connect failed"; }
                else {
                    w.handshake();
                    if (byzins) { applied = applied && vsim_hs_inserted(); vsim_hs_insert(-1, -1, nullptr, 0); }
                    if (have_held) { applied = applied && true; }   // the swapped-out record was never followed by another one: it became a deletion
                    uint64_t skipped = vsim_hs_skipped();
                    vsim_hs_skip(-1, -1, 0);
                    if (dv == DV_SKIP) { applied = skipped > 0; }
                    if (dv == DV_FINMUT) { applied = vsim_pt_mutated() > 0; vsim_pt_mutate(-1, 0, 0, 1, 0, 0); }
                    MxEndpoint &rcv = rcv_role ? *w.srv : *w.cli;
                    bool completed = rcv.is_complete();
                    std::string ctx = std::string(M.name) + "," + (rcv_role ? "server" : "client") + "," + what;
                    res.count(std::string("outcome.") + (applied ? (benign ? "benign" : "deviation") : "honest") + (completed ? ".completed" : ".refused"));
                    if (dv == DV_NONE || !applied) {
                        if (dv == DV_NONE && !(w.cli->is_complete() && w.srv->is_complete())) { res.harness_error = true; res.detail = std::string("control: legal trace of mode ") + M.name + " did not complete"; }
                    } else if (!benign && completed) {
                        res.violate("completed_on_illegal_sequence", ctx, "the " + std::string(rcv_role ? "server" : "client") + " completed the handshake although the message sequence it received deviates from every legal one (" + what + ", mode " + M.name + ")");
                    }
                    if (applied) { res.count(std::string("fault.") + DV_NAME[dv]); res.states.push_back(ctx); }
                    else if (dv != DV_NONE) { res.count("fault_not_fired"); }
                    res.nontrivial = applied && !benign;
                    res.fingerprint = mix64(w.fingerprint(), (uint64_t) (dv * 1000 + k * 10 + ddir));
                }
            }
        }
        w.teardown();
    }
    sim_global_close();
    return res;
}

static ModuleRegistrar reg({ "C06", "msgseq", "exploration",
    "16 handshake modes (TLS 1.1/1.2 RSA, ECDHE-RSA, ECDHE-ECDSA with client auth, static ECDH, PSK, id- and ticket-resumed, NewSessionTicket; TLS 1.3 full, client auth, PSK-resumed; DTLS 1.0/1.2 full, client auth, resumed). "
    "Fixed plans take every legal trace and apply every single-step deviation at every plaintext handshake/CCS record position in both directions: delete, duplicate, swap with the next, substitute (another type or an earlier message), "
    "inject (early CCS, Finished-typed, HelloRequest, second ClientHello, NewSessionTicket, ...); plus a byzantine MatrixSSL peer that omits one mandatory message through the guarded hook (server: Certificate, ServerKeyExchange, CCS, CertificateVerify, "
    "EncryptedExtensions; client: CertificateVerify, CCS, Certificate; ClientKeyExchange cannot be omitted by this hook because the writer also derives the omitting node's own keys) so that both transcripts agree. Oracle: a receiver whose inbound sequence deviates must not complete, except deviations the protocol tells it to absorb "
    "(DTLS duplicates/reordering, TLS 1.3 compatibility CCS, HelloRequest to a client). non-trivial = a non-benign deviation was applied; distinct = distinct (history, deviation)",
    c06_gen, c06_exec, 1000, 30000, 75, 1200,
    { "core", "crypto", "matrixssl (handshake state machines, Finished verification)" },
    { "transport", "man in the middle", "byzantine peer = MatrixSSL + guarded skip hook (MATRIXSSL_VERIF)", "applications", "clock", "entropy", "allocator front-end" },
    { "legal sequences are not enumerated as a table: every legal trace is produced by the honest pair (control must complete) and every deviation from it must not complete", "the adversary only manipulates whole records (MatrixSSL emits one handshake message per record)" },
    "asan", c06_fixed, true });
