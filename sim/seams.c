/* Simulator-owned seams (see seams.h).  Linked with -Wl,--wrap=... so the library's
 * libc calls for time and entropy, and its cross-TU calls to the AEAD/CBC/sign
 * primitives, arrive here.  Allocation arrives through the Malloc/Free macro seam. */
#define _GNU_SOURCE
#include "seams.h"
#include <errno.h>
#include <fcntl.h>
#include <stdarg.h>
#include <stdio.h>
#include <stdlib.h>
#include <string.h>
#include <sys/time.h>
#include <time.h>
#include <unistd.h>

extern void vsim_sched_point(int kind);   /* thread engine hook (no-op unless the thread engine is running) */

extern void __sanitizer_print_stack_trace(void) __attribute__((weak));
static int g_enabled = 0;
static __thread int t_node = 0;

uint64_t vsim_fnv(const void *p, size_t n)
{
    const unsigned char *b = (const unsigned char *) p;
    uint64_t h = 1469598103934665603ULL;
    for (size_t i = 0; i < n; i++) { h ^= b[i]; h *= 1099511628211ULL; }
    return h;
}

static uint64_t splitmix(uint64_t *s)
{
    uint64_t z = (*s += 0x9E3779B97F4A7C15ULL);
    z = (z ^ (z >> 30)) * 0xBF58476D1CE4E5B9ULL;
    z = (z ^ (z >> 27)) * 0x94D049BB133111EBULL;
    return z ^ (z >> 31);
}

void vsim_enable(void) { g_enabled = 1; }
void vsim_set_node(int node) { t_node = (node >= 0 && node < VSIM_MAX_NODES) ? node : 0; }
int vsim_get_node(void) { return t_node; }

/* ------------------------------------------------------------------ clocks */
static int64_t g_mono_ms = 1000000, g_wall_s = 1780272000;   /* 2026-06-01 */
static int64_t g_skew_mono[VSIM_MAX_NODES], g_skew_wall[VSIM_MAX_NODES];
static uint64_t g_clock_reads;

void vsim_clock_set(int64_t mono_ms, int64_t wall_s) { g_mono_ms = mono_ms; g_wall_s = wall_s; }
void vsim_clock_advance_ms(int64_t ms)
{
    static int64_t carry_ms;   /* wall advances in whole seconds; keep the remainder */
    g_mono_ms += ms;
    carry_ms += ms;
    g_wall_s += carry_ms / 1000;
    carry_ms %= 1000;
}
void vsim_wall_jump_s(int64_t s) { g_wall_s += s; }
void vsim_node_skew(int node, int64_t mono_ms, int64_t wall_s)
{
    if (node >= 0 && node < VSIM_MAX_NODES) { g_skew_mono[node] = mono_ms; g_skew_wall[node] = wall_s; }
}
int64_t vsim_mono_ms(void) { return g_mono_ms; }
int64_t vsim_wall_s(void) { return g_wall_s; }
uint64_t vsim_clock_reads(void) { return g_clock_reads; }

int __real_clock_gettime(clockid_t, struct timespec *);
int __wrap_clock_gettime(clockid_t clk, struct timespec *ts)
{
    if (!g_enabled || (clk != CLOCK_MONOTONIC && clk != CLOCK_REALTIME)) { return __real_clock_gettime(clk, ts); }
    vsim_sched_point(2);
    g_clock_reads++;
    if (clk == CLOCK_MONOTONIC)
    {
        int64_t ms = g_mono_ms + g_skew_mono[t_node];
        ts->tv_sec = ms / 1000; ts->tv_nsec = (ms % 1000) * 1000000L;
    }
    else
    {
        ts->tv_sec = g_wall_s + g_skew_wall[t_node]; ts->tv_nsec = 0;
    }
    return 0;
}
time_t __real_time(time_t *);
time_t __wrap_time(time_t *t)
{
    if (!g_enabled) { return __real_time(t); }
    vsim_sched_point(2);
    g_clock_reads++;
    time_t v = (time_t) (g_wall_s + g_skew_wall[t_node]);
    if (t) { *t = v; }
    return v;
}
int __real_gettimeofday(struct timeval *, void *);
int __wrap_gettimeofday(struct timeval *tv, void *tz)
{
    if (!g_enabled) { return __real_gettimeofday(tv, tz); }
    g_clock_reads++;
    if (tv) { tv->tv_sec = g_wall_s + g_skew_wall[t_node]; tv->tv_usec = 0; }
    return 0;
}

/* ------------------------------------------------------------------ entropy */
#define FAKE_FD_RANDOM  0x3ff00001
#define FAKE_FD_URANDOM 0x3ff00002
static uint64_t g_ent_state[VSIM_MAX_NODES];
static uint64_t g_ent_draws, g_ent_bytes, g_ent_fired, g_ent_seq;
static int64_t g_ent_fault_at = -1; static int g_ent_fault_kind, g_ent_fault_count;
#define DRAW_RING 1024
static vsim_draw_t g_draws[DRAW_RING];

void vsim_entropy_arm(void) { g_ent_draws = 0; }
void vsim_entropy_fault_at(int64_t idx, int kind, int count) { g_ent_fault_at = idx; g_ent_fault_kind = kind; g_ent_fault_count = count; }
uint64_t vsim_entropy_draws(void) { return g_ent_draws; }
uint64_t vsim_entropy_bytes(void) { return g_ent_bytes; }
uint64_t vsim_entropy_faults_fired(void) { return g_ent_fired; }
uint64_t vsim_entropy_seq(void) { return g_ent_seq; }
int vsim_entropy_recent(vsim_draw_t *out, int max)
{
    int n = 0;
    for (uint64_t s = g_ent_seq; s > 0 && n < max && n < DRAW_RING; s--) { out[n++] = g_draws[(s - 1) % DRAW_RING]; }
    return n;
}

int __real_open(const char *path, int flags, ...);
int __wrap_open(const char *path, int flags, ...)
{
    mode_t mode = 0;
    if (flags & O_CREAT) { va_list ap; va_start(ap, flags); mode = va_arg(ap, mode_t); va_end(ap); }
    if (g_enabled && path)
    {
        if (!strcmp(path, "/dev/urandom")) { return FAKE_FD_URANDOM; }
        if (!strcmp(path, "/dev/random")) { return FAKE_FD_RANDOM; }
    }
    return __real_open(path, flags, mode);
}
int __real_close(int fd);
int __wrap_close(int fd)
{
    if (fd == FAKE_FD_RANDOM || fd == FAKE_FD_URANDOM) { return 0; }
    return __real_close(fd);
}
ssize_t __real_read(int fd, void *buf, size_t n);
ssize_t __wrap_read(int fd, void *buf, size_t n)
{
    if (fd != FAKE_FD_RANDOM && fd != FAKE_FD_URANDOM) { return __real_read(fd, buf, n); }
    vsim_sched_point(3);
    if (fd == FAKE_FD_RANDOM)
    {
        /* /dev/random non-blocking: the simulated kernel always says "would block", so the
           library's urandom path (the one every Linux deployment uses) is the one exercised,
           except when the eagain-then-urandom fault is requested, which is this same path. */
        errno = EAGAIN;
        return -1;
    }
    uint64_t idx = g_ent_draws;
    if (g_ent_fault_at >= 0 && (int64_t) idx >= g_ent_fault_at && g_ent_fault_count > 0)
    {
        g_ent_fault_count--;
        g_ent_fired++;
        switch (g_ent_fault_kind)
        {
        case VSIM_ENT_EINTR: errno = EINTR; return -1;
        case VSIM_ENT_HARDFAIL: g_ent_draws++; errno = EIO; return -1;
        case VSIM_ENT_SHORT: if (n > 1) { n = 1 + (n - 1) / 3; } break;
        default: break;
        }
    }
    g_ent_draws++;
    unsigned char *b = (unsigned char *) buf;
    uint64_t *st = &g_ent_state[t_node];
    size_t i = 0;
    while (i < n)
    {
        uint64_t v = splitmix(st);
        for (int k = 0; k < 8 && i < n; k++, i++) { b[i] = (unsigned char) (v >> (8 * k)); }
    }
    g_ent_bytes += n;
    { static int tr = -1; if (tr < 0) { tr = getenv("VSIM_ENT_TRACE") ? 1 : 0; } if (tr) { dprintf(2, "ENT node=%d len=%zu draw#%llu\n", t_node, n, (unsigned long long) g_ent_seq); if (getenv("VSIM_ENT_BT") && (long) g_ent_seq == atol(getenv("VSIM_ENT_BT")) && __sanitizer_print_stack_trace) { __sanitizer_print_stack_trace(); } } }
    vsim_draw_t *d = &g_draws[g_ent_seq % DRAW_RING];
    d->node = t_node; d->len = (uint32_t) n; d->seq = g_ent_seq;
    memset(d->head, 0, sizeof d->head);
    memcpy(d->head, b, n < sizeof d->head ? n : sizeof d->head);
    g_ent_seq++;
    return (ssize_t) n;
}

/* ------------------------------------------------------------------ allocator */
typedef struct { void *p; size_t size; const char *file; const char *func; int line; uint64_t index; void *pcs[6]; } blk_t;
#define TAB_BITS 16
#define TAB_SIZE (1u << TAB_BITS)
static blk_t g_tab[TAB_SIZE];
static size_t g_live_blocks, g_live_bytes, g_peak_bytes, g_max_req;
static uint64_t g_alloc_idx, g_alloc_total, g_alloc_fired, g_unknown_frees;
#define MAX_FAIL 64
static uint64_t g_fail_idx[MAX_FAIL]; static int g_fail_n;
static uint64_t g_burst_from = (uint64_t) -1, g_burst_n;
static const char *g_fail_file, *g_fail_func;
static int g_bug_moves = 0, g_bug_poison = 1, g_track = 1, g_alloc_verbose = 0;
void vsim_alloc_verbose(int on) { g_alloc_verbose = on; }
static vsim_block_info_t g_last_fired; static int g_have_last_fired;
static void *const TOMB = (void *) 1;

static unsigned hptr(const void *p) { uint64_t x = (uint64_t) (uintptr_t) p; x ^= x >> 17; x *= 0x9E3779B97F4A7C15ULL; return (unsigned) (x >> (64 - TAB_BITS)); }
static blk_t *tab_find(const void *p)
{
    unsigned i = hptr(p);
    for (unsigned n = 0; n < TAB_SIZE; n++, i = (i + 1) & (TAB_SIZE - 1))
    {
        if (g_tab[i].p == p) { return &g_tab[i]; }
        if (g_tab[i].p == NULL) { return NULL; }
    }
    return NULL;
}
static void capture_pcs(void **pcs, int n)
{
    void **fp = (void **) __builtin_frame_address(0);
    for (int i = 0; i < n; i++) { pcs[i] = NULL; }
    /* skip our own frames (capture_pcs, tab_put, do_alloc, vsim_malloc) by starting two levels up; tolerate inlining */
    for (int i = 0; i < n + 3 && fp; i++)
    {
        void **next = (void **) fp[0];
        if (i >= 3) { pcs[i - 3] = fp[1]; }
        if (next <= fp || (uintptr_t) next - (uintptr_t) fp > (1u << 20)) { break; }
        fp = next;
    }
}
static void tab_put(void *p, size_t size, const char *file, const char *func, int line, uint64_t idx)
{
    unsigned i = hptr(p);
    for (unsigned n = 0; n < TAB_SIZE; n++, i = (i + 1) & (TAB_SIZE - 1))
    {
        if (g_tab[i].p == NULL || g_tab[i].p == TOMB)
        {
            g_tab[i].p = p; g_tab[i].size = size; g_tab[i].file = file; g_tab[i].func = func; g_tab[i].line = line; g_tab[i].index = idx;
            capture_pcs(g_tab[i].pcs, 6);
            g_live_blocks++; g_live_bytes += size;
            if (g_live_bytes > g_peak_bytes) { g_peak_bytes = g_live_bytes; }
            return;
        }
    }
    fprintf(stderr, "vsim: allocation table full\n"); abort();
}

void vsim_alloc_arm(void) { g_alloc_idx = 0; }
void vsim_alloc_fail_clear(void) { g_fail_n = 0; g_burst_from = (uint64_t) -1; g_burst_n = 0; g_fail_file = g_fail_func = NULL; }
void vsim_alloc_fail_index(uint64_t k) { if (g_fail_n < MAX_FAIL) { g_fail_idx[g_fail_n++] = k; } }
void vsim_alloc_fail_from(uint64_t k, uint64_t n) { g_burst_from = k; g_burst_n = n; }
void vsim_alloc_fail_site(const char *file, const char *func) { g_fail_file = file; g_fail_func = func; }
void vsim_alloc_buggify(int moves, int poison) { g_bug_moves = moves; g_bug_poison = poison; }
uint64_t vsim_alloc_count(void) { return g_alloc_idx; }
uint64_t vsim_alloc_total(void) { return g_alloc_total; }
uint64_t vsim_alloc_fired(void) { return g_alloc_fired; }
int vsim_alloc_last_fired(vsim_block_info_t *out) { if (g_have_last_fired && out) { *out = g_last_fired; } return g_have_last_fired; }
size_t vsim_alloc_live_blocks(void) { return g_live_blocks; }
size_t vsim_alloc_live_bytes(void) { return g_live_bytes; }
size_t vsim_alloc_peak_bytes(void) { return g_peak_bytes; }
size_t vsim_alloc_max_request(void) { return g_max_req; }
uint64_t vsim_alloc_unknown_frees(void) { return g_unknown_frees; }
void vsim_alloc_track(int on) { g_track = on; }
int vsim_alloc_live_list(vsim_block_info_t *out, int max)
{
    int n = 0;
    for (unsigned i = 0; i < TAB_SIZE && n < max; i++)
    {
        if (g_tab[i].p && g_tab[i].p != TOMB)
        {
            out[n].file = g_tab[i].file; out[n].func = g_tab[i].func; out[n].line = g_tab[i].line;
            out[n].size = g_tab[i].size; out[n].index = g_tab[i].index; memcpy(out[n].pcs, g_tab[i].pcs, sizeof out[n].pcs); n++;
        }
    }
    return n;
}
void vsim_alloc_mark(void)
{
    /* blocks alive now are declared outside the run: drop them from the table (they are still valid
       memory; a later free of them counts as "unknown free", which is not an error) */
    memset(g_tab, 0, sizeof g_tab);
    g_live_blocks = 0; g_live_bytes = 0; g_peak_bytes = 0; g_max_req = 0;
}

static int should_fail(const char *file, const char *func)
{
    uint64_t k = g_alloc_idx;
    for (int i = 0; i < g_fail_n; i++) { if (g_fail_idx[i] == k) { return 1; } }
    if (g_burst_from != (uint64_t) -1 && k >= g_burst_from && k < g_burst_from + g_burst_n) { return 1; }
    if (g_fail_func && func && !strcmp(func, g_fail_func) && (!g_fail_file || (file && strstr(file, g_fail_file)))) { return 1; }
    return 0;
}


static long g_bt_alloc = -2;
static uint32_t *g_site_trace; static size_t g_site_trace_max;
void vsim_alloc_site_trace(uint32_t *buf, size_t max) { g_site_trace = buf; g_site_trace_max = max; }
static void *do_alloc(size_t n, int zero, const char *file, const char *func, int line)
{
    vsim_sched_point(1);
    if (g_bt_alloc == -2) { const char *e = getenv("VSIM_BT_ALLOC"); g_bt_alloc = e ? atol(e) : -1; }
    if (g_bt_alloc >= 0 && (long) g_alloc_idx == g_bt_alloc && __sanitizer_print_stack_trace) { dprintf(2, "VSIM allocation #%ld (%zu bytes):\n", g_bt_alloc, n); __sanitizer_print_stack_trace(); }
    int fail = should_fail(file, func);
    uint64_t idx = g_alloc_idx++;
    if (g_site_trace && idx < g_site_trace_max) { g_site_trace[idx] = (uint32_t) (vsim_fnv(file ? file : "?", file ? strlen(file) : 1) * 31u + (uint32_t) line); }
    g_alloc_total++;
    if (n > g_max_req) { g_max_req = n; }
    if (fail)
    {
        g_alloc_fired++;
        g_last_fired.file = file; g_last_fired.func = func; g_last_fired.line = line; g_last_fired.size = n; g_last_fired.index = idx;
        g_have_last_fired = 1;
        if (g_alloc_verbose) { const char *b = file ? strrchr(file, '/') : NULL; dprintf(2, "VSIM-ALLOC-FAIL %s:%s\n", b ? b + 1 : (file ? file : "?"), func ? func : "?"); }
        return NULL;
    }
    void *p = malloc(n ? n : 1);
    if (!p) { return NULL; }
    if (zero) { memset(p, 0, n); }
    else if (g_bug_poison) { memset(p, 0xA5, n); }
    if (g_track) { tab_put(p, n, file, func, line, idx); }
    return p;
}

void *vsim_malloc(size_t n, const char *file, const char *func, int line) { return do_alloc(n, 0, file, func, line); }
void *vsim_calloc(size_t n, size_t s, const char *file, const char *func, int line)
{
    if (s && n > ((size_t) -1) / s) { return NULL; }
    return do_alloc(n * s, 1, file, func, line);
}
void vsim_free(void *p, const char *file, const char *func, int line)
{
    (void) file; (void) func; (void) line;
    if (!p) { return; }
    blk_t *b = tab_find(p);
    if (b) { g_live_blocks--; g_live_bytes -= b->size; b->p = TOMB; }
    else { g_unknown_frees++; }
    free(p);   /* a double free is caught by the sanitizer's allocator */
}
void *vsim_realloc(void *p, size_t n, const char *file, const char *func, int line)
{
    if (!p) { return do_alloc(n, 0, file, func, line); }
    blk_t *b = tab_find(p);
    size_t old = b ? b->size : 0;
    void *q = do_alloc(n, 0, file, func, line);    /* always moves: the buggify choice that exposes stale pointers */
    if (!q) { return NULL; }
    if (b) { memcpy(q, p, old < n ? old : n); vsim_free(p, file, func, line); return q; }
    /* unknown block (allocated before tracking): fall back to libc realloc semantics */
    blk_t *qb = tab_find(q);
    if (qb) { g_live_blocks--; g_live_bytes -= qb->size; qb->p = TOMB; }
    free(q);
    q = realloc(p, n);
    if (q && g_track) { tab_put(q, n, file, func, line, g_alloc_idx - 1); }
    return q;
}

static void vsim_probe_reset(void);
/* ------------------------------------------------------------------ run reset */
void vsim_run_reset(uint64_t seed)
{
    uint64_t s = seed ^ 0xA5A5A5A55A5A5A5AULL;
    for (int i = 0; i < VSIM_MAX_NODES; i++) { g_ent_state[i] = splitmix(&s); g_skew_mono[i] = 0; g_skew_wall[i] = 0; }
    g_mono_ms = 1000000; g_wall_s = 1780272000;
    g_clock_reads = 0;
    g_ent_draws = g_ent_bytes = g_ent_fired = g_ent_seq = 0; g_ent_fault_at = -1;
    memset(g_draws, 0, sizeof g_draws);
    vsim_alloc_fail_clear();
    g_alloc_idx = 0; g_alloc_fired = 0; g_alloc_total = 0; g_unknown_frees = 0; g_have_last_fired = 0;
    g_peak_bytes = g_live_bytes; g_max_req = 0;
    g_bug_moves = 0; g_bug_poison = 1; g_track = 1; g_alloc_verbose = 0;
    t_node = 0;
    vsim_probe_reset();
}

/* ------------------------------------------------------------------ probes */
static vsim_probe_cb g_probe_cb; static void *g_probe_arg; static uint64_t g_probe_seq;
void vsim_probe_set(vsim_probe_cb cb, void *arg) { g_probe_cb = cb; g_probe_arg = arg; }

static void probe_emit(vsim_probe_t *p)
{
    if (!g_probe_cb) { return; }
    p->node = t_node; p->seq = g_probe_seq++;
    g_probe_cb(p, g_probe_arg);
}
static uint64_t ctx_key_id(const void *ctx) { return vsim_fnv(ctx, 32); }
static void fill_pt(vsim_probe_t *p, const unsigned char *pt, uint32_t len)
{
    p->pt_len = (int) len; p->pt_digest = pt ? vsim_fnv(pt, len) : 0;
    memset(p->pt_head, 0, sizeof p->pt_head); memset(p->pt_tail, 0, sizeof p->pt_tail);
    if (pt)
    {
        memcpy(p->pt_head, pt, len < 16 ? len : 16);
        if (len >= 4) { memcpy(p->pt_tail, pt + len - 4, 4); } else { memcpy(p->pt_tail + 4 - len, pt, len); }
    }
}

static void g_sign_node_reset(void);
static void g_ptm_reset(void);
/* GCM: Ready(ctx, IV, aad) then Encrypt/Decrypt(ctx, ...).  Remember the last Ready per ctx. */
#define RDY_SLOTS 64
static struct { const void *ctx; unsigned char iv[16]; uint64_t aad_digest; int aad_len; } g_rdy[RDY_SLOTS];
static int rdy_slot(const void *ctx)
{
    int free_i = -1;
    for (int i = 0; i < RDY_SLOTS; i++) { if (g_rdy[i].ctx == ctx) { return i; } if (!g_rdy[i].ctx && free_i < 0) { free_i = i; } }
    if (free_i < 0) { free_i = (int) (((uintptr_t) ctx >> 4) % RDY_SLOTS); }
    g_rdy[free_i].ctx = ctx;
    return free_i;
}

extern void vsim_hs_skip(int node, int hs_type, int count);
extern void vsim_hs_insert(int node, int before_type, const unsigned char *msg, size_t len);
static void vsim_probe_reset(void) { memset(g_rdy, 0, sizeof g_rdy); g_probe_seq = 0; g_sign_node_reset(); g_ptm_reset(); vsim_hs_skip(-1, -1, 0); vsim_hs_insert(-1, -1, 0, 0); }
int32_t __real_psAesInitGCM(void *ctx, const unsigned char *key, uint8_t keylen);
int32_t __wrap_psAesInitGCM(void *ctx, const unsigned char *key, uint8_t keylen)
{
    int32_t rc = __real_psAesInitGCM(ctx, key, keylen);
    vsim_probe_t p; memset(&p, 0, sizeof p);
    p.kind = VSIM_PR_GCM_INIT; p.key_id = ctx_key_id(ctx); p.rc = rc; p.pt_len = keylen; p.pt_digest = vsim_fnv(key, keylen);
    p.aad_digest = (uint64_t) (uintptr_t) ctx;
    probe_emit(&p);
    return rc;
}
void __real_psAesReadyGCM(void *ctx, const unsigned char *IV, const unsigned char *aad, uint16_t aadLen);
void __wrap_psAesReadyGCM(void *ctx, const unsigned char *IV, const unsigned char *aad, uint16_t aadLen)
{
    int s = rdy_slot(ctx);
    memset(g_rdy[s].iv, 0, 16); memcpy(g_rdy[s].iv, IV, 12);
    g_rdy[s].aad_digest = aad ? vsim_fnv(aad, aadLen) : 0; g_rdy[s].aad_len = aadLen;
    __real_psAesReadyGCM(ctx, IV, aad, aadLen);
}

/* byzantine sender: plaintext edit before an AEAD seal */
static struct { int node; int nth; int64_t off; int w; int mode; uint32_t val; } g_ptm = { -1, 0, 0, 0, 0, 0 };
static uint64_t g_ptm_fired;
static void g_ptm_reset(void) { g_ptm.node = -1; g_ptm_fired = 0; }
void vsim_pt_mutate(int node, int nth, int64_t off, int w, int mode, uint32_t val) { g_ptm.node = node; g_ptm.nth = nth; g_ptm.off = off; g_ptm.w = w < 1 ? 1 : (w > 3 ? 3 : w); g_ptm.mode = mode; g_ptm.val = val; }
void vsim_pt_short_finished(int node, uint32_t keep) { g_ptm.node = node; g_ptm.nth = 0; g_ptm.off = 0; g_ptm.w = 1; g_ptm.mode = 4; g_ptm.val = keep; }
uint64_t vsim_pt_mutated(void) { return g_ptm_fired; }
static unsigned char *ptm_apply(const unsigned char *pt, size_t len)
{
    if (g_ptm.node < 0 || g_ptm.node != vsim_get_node()) { return NULL; }
    if (g_ptm.mode == 4)
    {
        /* the node's own Finished, re-encoded before sealing with a verify_data of only `val` bytes (a prefix of the right value): the
           freed room becomes HelloRequest messages (TLS <= 1.2: 00 00 00 00 each; DTLS: one 12-byte all-zero header) or, in TLS 1.3,
           record padding after the moved inner content type.  The record stays well formed and authenticated. */
        size_t full, hl; int t13 = 0;
        if (!pt || pt[0] != 0x14) { return NULL; }
        if (len == 16) { hl = 4; full = 12; } else if (len == 24 && pt[11] == 12) { hl = 12; full = 12; }
        else if ((len == 37 || len == 53) && pt[len - 1] == 0x16) { hl = 4; full = len - 5; t13 = 1; } else { return NULL; }
        size_t keep = g_ptm.val;
        if (hl == 12) { keep = 0; }
        if (keep >= full) { keep = full - 4; }
        if (!t13) { keep &= ~(size_t) 3; }
        g_ptm.node = -1;
        unsigned char *t = (unsigned char *) malloc(len);
        if (!t) { return NULL; }
        memcpy(t, pt, len);
        t[1] = 0; t[2] = 0; t[3] = (unsigned char) keep;
        if (hl == 12) { t[9] = t[10] = 0; t[11] = (unsigned char) keep; }
        memset(t + hl + keep, 0, len - hl - keep);
        if (t13) { t[hl + keep] = 0x16; }
        g_ptm_fired++;
        return t;
    }
    if (g_ptm.nth-- > 0) { return NULL; }
    g_ptm.node = -1;
    if (len < (size_t) g_ptm.w || !pt) { return NULL; }
    unsigned char *t = (unsigned char *) malloc(len);
    if (!t) { return NULL; }
    memcpy(t, pt, len);
    size_t off = (size_t) ((uint64_t) g_ptm.off % (len - (size_t) g_ptm.w + 1));
    uint32_t cur = 0, v;
    for (int i = 0; i < g_ptm.w; i++) { cur = cur << 8 | t[off + i]; }
    switch (g_ptm.mode & 3) { case 1: v = cur + 1; break; case 2: v = cur - 1; break; case 3: v = cur ^ (g_ptm.val ? g_ptm.val : 1); break; default: v = g_ptm.val; break; }
    for (int i = 0; i < g_ptm.w; i++) { t[off + i] = (unsigned char) (v >> (8 * (g_ptm.w - 1 - i))); }
    g_ptm_fired++;
    return t;
}

void __real_psAesEncryptGCM(void *ctx, const unsigned char *pt, unsigned char *ct, uint32_t len);
void __wrap_psAesEncryptGCM(void *ctx, const unsigned char *pt, unsigned char *ct, uint32_t len)
{
    vsim_probe_t p; memset(&p, 0, sizeof p);
    int s = rdy_slot(ctx);
    p.kind = VSIM_PR_GCM_ENC; p.key_id = ctx_key_id(ctx);
    memcpy(p.nonce, g_rdy[s].iv, 12); p.nonce_len = 12; p.aad_digest = g_rdy[s].aad_digest; p.aad_len = g_rdy[s].aad_len;
    fill_pt(&p, pt, len);
    p.iv[0] = 0; memcpy(p.iv, &ctx, sizeof ctx);   /* ctx address: lets the harness attribute the seal to a session */
    { unsigned char *t = ptm_apply(pt, len); __real_psAesEncryptGCM(ctx, t ? t : pt, ct, len); free(t); }
    probe_emit(&p);
}
int32_t __real_psAesDecryptGCM(void *ctx, const unsigned char *ct, uint32_t ctLen, unsigned char *pt, uint32_t ptLen);
int32_t __wrap_psAesDecryptGCM(void *ctx, const unsigned char *ct, uint32_t ctLen, unsigned char *pt, uint32_t ptLen)
{
    vsim_probe_t p; memset(&p, 0, sizeof p);
    int s = rdy_slot(ctx);
    p.kind = VSIM_PR_GCM_DEC; p.key_id = ctx_key_id(ctx);
    memcpy(p.nonce, g_rdy[s].iv, 12); p.nonce_len = 12; p.aad_digest = g_rdy[s].aad_digest; p.aad_len = g_rdy[s].aad_len;
    memcpy(p.iv, &ctx, sizeof ctx);
    int32_t rc = __real_psAesDecryptGCM(ctx, ct, ctLen, pt, ptLen);
    p.rc = rc;
    if (rc >= 0) { fill_pt(&p, pt, ptLen); } else { p.pt_len = (int) ptLen; }
    probe_emit(&p);
    return rc;
}

int32_t __real_psChacha20Poly1305IetfInit(void *ctx, const unsigned char *key);
int32_t __wrap_psChacha20Poly1305IetfInit(void *ctx, const unsigned char *key)
{
    int32_t rc = __real_psChacha20Poly1305IetfInit(ctx, key);
    vsim_probe_t p; memset(&p, 0, sizeof p);
    p.kind = VSIM_PR_CHACHA_INIT; p.key_id = ctx_key_id(ctx); p.rc = rc; p.pt_len = 32; p.pt_digest = vsim_fnv(key, 32);
    p.aad_digest = (uint64_t) (uintptr_t) ctx;
    probe_emit(&p);
    return rc;
}
int32_t __real_psChacha20Poly1305IetfEncrypt(void *ctx, const unsigned char *pt, size_t ptLen, const unsigned char *iv,
    const unsigned char *aad, size_t aadLen, unsigned char *ct);
int32_t __wrap_psChacha20Poly1305IetfEncrypt(void *ctx, const unsigned char *pt, size_t ptLen, const unsigned char *iv,
    const unsigned char *aad, size_t aadLen, unsigned char *ct)
{
    vsim_probe_t p; memset(&p, 0, sizeof p);
    p.kind = VSIM_PR_CHACHA_ENC; p.key_id = ctx_key_id(ctx);
    memcpy(p.nonce, iv, 12); p.nonce_len = 12; p.aad_digest = aad ? vsim_fnv(aad, aadLen) : 0; p.aad_len = (int) aadLen;
    fill_pt(&p, pt, (uint32_t) ptLen);
    memcpy(p.iv, &ctx, sizeof ctx);
    unsigned char *t = ptm_apply(pt, ptLen);
    int32_t rc = __real_psChacha20Poly1305IetfEncrypt(ctx, t ? t : pt, ptLen, iv, aad, aadLen, ct);
    free(t);
    p.rc = rc;
    probe_emit(&p);
    return rc;
}
int32_t __real_psChacha20Poly1305IetfDecrypt(void *ctx, const unsigned char *ct, size_t ctLen, const unsigned char *iv,
    const unsigned char *aad, size_t aadLen, unsigned char *pt);
int32_t __wrap_psChacha20Poly1305IetfDecrypt(void *ctx, const unsigned char *ct, size_t ctLen, const unsigned char *iv,
    const unsigned char *aad, size_t aadLen, unsigned char *pt)
{
    vsim_probe_t p; memset(&p, 0, sizeof p);
    p.kind = VSIM_PR_CHACHA_DEC; p.key_id = ctx_key_id(ctx);
    memcpy(p.nonce, iv, 12); p.nonce_len = 12; p.aad_digest = aad ? vsim_fnv(aad, aadLen) : 0; p.aad_len = (int) aadLen;
    memcpy(p.iv, &ctx, sizeof ctx);
    int32_t rc = __real_psChacha20Poly1305IetfDecrypt(ctx, ct, ctLen, iv, aad, aadLen, pt);
    p.rc = rc;
    if (rc >= 0) { fill_pt(&p, pt, (uint32_t) rc); }
    probe_emit(&p);
    return rc;
}

int32_t __real_psAesInitCBC(void *ctx, const unsigned char *IV, const unsigned char *key, uint8_t keylen, uint32_t flags);
int32_t __wrap_psAesInitCBC(void *ctx, const unsigned char *IV, const unsigned char *key, uint8_t keylen, uint32_t flags)
{
    int32_t rc = __real_psAesInitCBC(ctx, IV, key, keylen, flags);
    vsim_probe_t p; memset(&p, 0, sizeof p);
    p.kind = VSIM_PR_CBC_INIT; p.key_id = ctx_key_id(ctx); p.rc = rc; p.pt_len = keylen; p.pt_digest = vsim_fnv(key, keylen);
    p.aad_digest = (uint64_t) (uintptr_t) ctx; p.aad_len = (int) flags;
    if (IV) { memcpy(p.iv, IV, 16); }
    probe_emit(&p);
    return rc;
}
void __real_psAesEncryptCBC(void *ctx, const unsigned char *pt, unsigned char *ct, uint32_t len);
void __wrap_psAesEncryptCBC(void *ctx, const unsigned char *pt, unsigned char *ct, uint32_t len)
{
    vsim_probe_t p; memset(&p, 0, sizeof p);
    p.kind = VSIM_PR_CBC_ENC; p.key_id = ctx_key_id(ctx);
    fill_pt(&p, pt, len);
    p.aad_digest = (uint64_t) (uintptr_t) ctx;
    __real_psAesEncryptCBC(ctx, pt, ct, len);
    if (len >= 16) { memcpy(p.ct_head, ct, 16); memcpy(p.nonce, ct + len - 16, 16); p.nonce_len = 16; }
    probe_emit(&p);
}
void __real_psAesDecryptCBC(void *ctx, const unsigned char *ct, unsigned char *pt, uint32_t len);
void __wrap_psAesDecryptCBC(void *ctx, const unsigned char *ct, unsigned char *pt, uint32_t len)
{
    vsim_probe_t p; memset(&p, 0, sizeof p);
    p.kind = VSIM_PR_CBC_DEC; p.key_id = ctx_key_id(ctx); p.pt_len = (int) len;
    p.aad_digest = (uint64_t) (uintptr_t) ctx;
    if (len >= 16) { memcpy(p.ct_head, ct, 16); }
    __real_psAesDecryptCBC(ctx, ct, pt, len);
    probe_emit(&p);
}

/* byzantine signer */
static int g_sign_node = -1, g_sign_count, g_sign_mode; static uint64_t g_sign_corrupted;
static void g_sign_node_reset(void) { g_sign_node = -1; g_sign_count = 0; g_sign_corrupted = 0; g_sign_mode = 0; }
void vsim_sign_mode(int mode) { g_sign_mode = mode; }
void vsim_sign_corrupt(int node, int count) { g_sign_node = node; g_sign_count = count; }
uint64_t vsim_sign_corrupted(void) { return g_sign_corrupted; }
int32_t __real_psSign(void *pool, void *privKey, int32_t sigAlg, const unsigned char *in, size_t inLen,
    unsigned char **out, uint16_t *outLen, void *opts);
int32_t __wrap_psSign(void *pool, void *privKey, int32_t sigAlg, const unsigned char *in, size_t inLen,
    unsigned char **out, uint16_t *outLen, void *opts)
{
    int32_t rc;
    int other_data = g_sign_mode == 1 && g_sign_node == t_node && g_sign_count > 0 && in && inLen > 0;
    if (other_data)
    {
        /* a genuine, well-formed signature by the right key - over data that differs from this handshake's in one bit */
        unsigned char *tmp = (unsigned char *) malloc(inLen);
        memcpy(tmp, in, inLen); tmp[inLen / 2] ^= 0x04;
        rc = __real_psSign(pool, privKey, sigAlg, tmp, inLen, out, outLen, opts);
        free(tmp);
        if (rc >= 0) { g_sign_count--; g_sign_corrupted++; }
    }
    else { rc = __real_psSign(pool, privKey, sigAlg, in, inLen, out, outLen, opts); }
    vsim_probe_t p; memset(&p, 0, sizeof p);
    p.kind = VSIM_PR_SIGN; p.rc = rc; p.pt_len = (int) inLen; p.pt_digest = vsim_fnv(in, inLen);
    if (!other_data && g_sign_mode == 0 && rc >= 0 && out && *out && outLen && *outLen > 8 && g_sign_node == t_node && g_sign_count > 0)
    {
        g_sign_count--;
        (*out)[*outLen - 3] ^= 0x20;   /* inside the last integer / signature block, keeps any DER framing */
        g_sign_corrupted++;
        p.aad_len = 1;
    }
    probe_emit(&p);
    return rc;
}

/* thread engine (nosan_sched.c): every seam call is a scheduling point; mutexes are modelled so that a thread never really blocks */
#include <pthread.h>
#include "vsched.h"
void vsim_sched_point(int kind) { vs_point(kind); }
int __real_pthread_mutex_lock(pthread_mutex_t *m);
int __real_pthread_mutex_unlock(pthread_mutex_t *m);
int __wrap_pthread_mutex_lock(pthread_mutex_t *m)
{
    if (g_enabled) { vs_mutex_before_lock(m); }
    return __real_pthread_mutex_lock(m);
}
int __wrap_pthread_mutex_unlock(pthread_mutex_t *m)
{
    int rc = __real_pthread_mutex_unlock(m);
    if (g_enabled) { vs_mutex_after_unlock(m); }
    return rc;
}

extern void __sanitizer_symbolize_pc(void *pc, const char *fmt, char *out_buf, size_t out_buf_size) __attribute__((weak));
void vsim_block_owner(const vsim_block_info_t *b, char *out, size_t n)
{
    static const char *GENERIC[] = { "psBufInit", "psDynBufInit", "psBufDetach", "psDynBufDetach", "psDynBufGrow", "psDynBufAppendSize", "psDynBufAppendOctets", "psDynBufAppendTlsVector",
                                     "psBufFromData", "vsim_malloc", "vsim_calloc", "vsim_realloc", "do_alloc", "tab_put", "pstm_init_size", "pstm_init", "pstm_init_copy", "pstm_init_for_read_unsigned_bin", "pstm_grow", NULL };
    snprintf(out, n, "%s", b->func ? b->func : "?");
    if (!__sanitizer_symbolize_pc) { return; }
    for (int i = 0; i < 6 && b->pcs[i]; i++)
    {
        char name[128]; name[0] = 0;
        __sanitizer_symbolize_pc((char *) b->pcs[i] - 1, "%f", name, sizeof name);
        if (!name[0] || !strcmp(name, "<null>") || !strcmp(name, "??")) { continue; }
        int generic = 0;
        for (int g = 0; GENERIC[g]; g++) { if (!strcmp(name, GENERIC[g])) { generic = 1; break; } }
        if (!generic) { snprintf(out, n, "%s", name); return; }
    }
}

/* ------------------------------------------------------------------ byzantine peer: skip handshake messages (guarded hook) */
static int g_skip_node = -1, g_skip_type = -1, g_skip_type2 = -1, g_skip_count = 0, g_skip_count2 = 0; static uint64_t g_skipped;
void vsim_hs_skip(int node, int hs_type, int count) { g_skip_node = node; g_skip_type = hs_type; g_skip_count = count; g_skip_type2 = -1; g_skip_count2 = 0; if (node < 0) { g_skipped = 0; } }
void vsim_hs_skip_also(int hs_type2, int count) { g_skip_type2 = hs_type2; g_skip_count2 = count; }   /* a second message type omitted by the same node */
uint64_t vsim_hs_skipped(void) { return g_skipped; }
/* byzantine peer, second use of the same hook: just before the node writes message `before_type` it ALSO accounts a foreign message in its own
 * transcript (the harness puts the same bytes on the wire in front of that message), so that both Finished computations agree */
static int g_ins_node = -1, g_ins_before = -1, g_ins_done = 0; static unsigned char g_ins_msg[8192]; static size_t g_ins_len;
extern void vsim_byz_update_hash(const void *ssl, const unsigned char *msg, size_t len);
void vsim_hs_insert(int node, int before_type, const unsigned char *msg, size_t len)
{
    g_ins_node = node; g_ins_before = before_type; g_ins_done = 0; g_ins_len = 0;
    if (msg && len <= sizeof g_ins_msg) { memcpy(g_ins_msg, msg, len); g_ins_len = len; } else { g_ins_node = -1; }
}
int vsim_hs_inserted(void) { return g_ins_done; }
int psVerifHsSkip(const void *ssl, int hsType)
{
    if (hsType & 0x1000) {
        /* the flight encoder is about to hash and seal this message (messages are written first, hashed later): the added message goes in here */
        if (g_ins_node >= 0 && g_ins_node == t_node && g_ins_before == (hsType & 0xfff) && !g_ins_done) { g_ins_done = 1; vsim_byz_update_hash(ssl, g_ins_msg, g_ins_len); }
        return 0;
    }
    if (g_skip_node == t_node && g_skip_type == hsType && g_skip_count > 0) { g_skip_count--; g_skipped++; return 1; }
    if (g_skip_node == t_node && g_skip_type2 == hsType && g_skip_count2 > 0) { g_skip_count2--; g_skipped++; return 1; }
    return 0;
}
