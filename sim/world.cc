#include "world.h"
#include "peek.h"
#include <cstdlib>

bool parse_record(const Bytes &buf, size_t off, bool dtls, Record &out) {
    size_t hdr = dtls ? 13 : 5;
    if (buf.size() < off + hdr) { return false; }
    const unsigned char *p = buf.data() + off;
    size_t len = dtls ? ((size_t) p[11] << 8 | p[12]) : ((size_t) p[3] << 8 | p[4]);
    if (buf.size() < off + hdr + len) { return false; }
    out.dtls = dtls; out.type = p[0]; out.ver = (uint16_t) (p[1] << 8 | p[2]); out.hdr = hdr;
    if (dtls) {
        out.epoch = (uint16_t) (p[3] << 8 | p[4]);
        out.seq = 0;
        for (int i = 0; i < 6; i++) { out.seq = out.seq << 8 | p[5 + i]; }
    }
    out.raw.assign(p, p + hdr + len);
    return true;
}

std::vector<Record> split_records(const Bytes &d, bool dtls) {
    std::vector<Record> v; size_t off = 0; Record r;
    while (parse_record(d, off, dtls, r)) { off += r.raw.size(); v.push_back(r); }
    return v;
}

std::vector<HsMsg> parse_hs_msgs(const unsigned char *b, size_t n, bool dtls) {
    std::vector<HsMsg> v; size_t off = 0; size_t hh = dtls ? 12 : 4;
    while (off + hh <= n) {
        HsMsg m; m.type = b[off]; m.len = (uint32_t) b[off + 1] << 16 | (uint32_t) b[off + 2] << 8 | b[off + 3]; m.off = off;
        size_t body = m.len;
        if (dtls) {
            m.msg_seq = (uint16_t) (b[off + 4] << 8 | b[off + 5]);
            m.frag_off = (uint32_t) b[off + 6] << 16 | (uint32_t) b[off + 7] << 8 | b[off + 8];
            m.frag_len = (uint32_t) b[off + 9] << 16 | (uint32_t) b[off + 10] << 8 | b[off + 11];
            body = m.frag_len;
        }
        m.total = hh + body;
        if (off + m.total > n) { m.total = n - off; v.push_back(m); break; }
        v.push_back(m);
        off += m.total;
    }
    return v;
}

const char *hs_type_name(int t) {
    switch (t) {
    case 0: return "hello_request"; case 1: return "client_hello"; case 2: return "server_hello"; case 3: return "hello_verify_request";
    case 4: return "new_session_ticket"; case 5: return "end_of_early_data"; case 8: return "encrypted_extensions"; case 11: return "certificate";
    case 12: return "server_key_exchange"; case 13: return "certificate_request"; case 14: return "server_hello_done";
    case 15: return "certificate_verify"; case 16: return "client_key_exchange"; case 20: return "finished"; case 22: return "certificate_status";
    case 24: return "key_update";
    }
    return "hs_other";
}

Bytes make_record(uint8_t type, uint16_t ver, const Bytes &body, bool dtls, uint16_t epoch, uint64_t seq) {
    Bytes r;
    r.push_back(type); r.push_back((unsigned char) (ver >> 8)); r.push_back((unsigned char) ver);
    if (dtls) {
        r.push_back((unsigned char) (epoch >> 8)); r.push_back((unsigned char) epoch);
        for (int i = 5; i >= 0; i--) { r.push_back((unsigned char) (seq >> (8 * i))); }
    }
    r.push_back((unsigned char) (body.size() >> 8)); r.push_back((unsigned char) body.size());
    r.insert(r.end(), body.begin(), body.end());
    return r;
}

Bytes tagged_payload(int sender, int idx, size_t len) {
    // every 8-byte window is attributable: "<S><idx:3 hex>" header then a keyed stream
    Bytes b(len);
    Rng r(0xDA7A0000ULL + (uint64_t) sender * 1000003ULL + (uint64_t) idx * 7919ULL);
    for (size_t i = 0; i < len; i++) { b[i] = (unsigned char) r.next(); }
    if (len >= 1) { b[0] = sender == 0 ? 'C' : 'S'; }
    if (len >= 2) { b[1] = (unsigned char) idx; }
    return b;
}

bool PairCfg::dtls() const {
    if (version) { return version == v_dtls_1_0 || version == v_dtls_1_2; }
    for (auto v : versions_c) { if (v == v_dtls_1_0 || v == v_dtls_1_2) { return true; } }
    return false;
}

static uint32_t ver_by_index(int64_t i) {
    static const uint32_t V[] = { v_tls_1_1, v_tls_1_2, v_tls_1_3, v_dtls_1_0, v_dtls_1_2 };
    return V[((i % 5) + 5) % 5];
}

PairCfg paircfg_from_plan(const Plan &p) {
    PairCfg c;
    if (p.cfg.count("ver")) { c.version = ver_by_index(p.get("ver")); }
    // explicit version sets (bit i = ver_by_index(i))
    // highest first: the library's default priority order
    if (p.cfg.count("vers_c")) { for (int i = 4; i >= 0; i--) { if (p.get("vers_c") >> i & 1) { c.versions_c.push_back(ver_by_index(i)); } } }
    if (p.cfg.count("vers_s")) { for (int i = 4; i >= 0; i--) { if (p.get("vers_s") >> i & 1) { c.versions_s.push_back(ver_by_index(i)); } } }
    int64_t suite = p.get("suite");
    if (suite) { c.suites.push_back((uint16_t) suite); }
    for (int i = 2; i <= 6; i++) { int64_t s = p.get("suite" + std::to_string(i)); if (s) { c.suites.push_back((uint16_t) s); } }
    c.server_identity = (int) p.get("sid_kind", suite ? suite_auth_kind((uint16_t) suite) : KK_RSA2048);
    if (c.server_identity == KK_NONE) { c.server_identity = (int) p.get("sid_kind13", KK_EC256); }
    if (c.server_identity == KK_PSK_ONLY) { c.server_identity = KK_NONE; c.psk = true; }
    if (p.get("psk")) { c.psk = true; }
    c.client_identity = (int) p.get("cauth", KK_NONE);
    c.client_auth = c.client_identity != KK_NONE || p.get("cauth_req");
    c.tickets = p.get("tickets") != 0;
    c.tls13_ext_psk = p.get("extpsk") != 0;
    c.cb_c = (int) p.get("cb_c", CB_ALLOW_ALL);
    c.cb_s = (int) p.get("cb_s", CB_ALLOW_ALL);
    c.cb_allow_alert_c = (int) p.get("cb_alert", 0);
    c.client_trusts_server = p.get("trust", 1) != 0;
    c.forge_server_cert = p.get("forge_s") != 0; c.forge_client_cert = p.get("forge_c") != 0; c.forge_mode = (int) p.get("forge_mode"); c.max_frag = (int) p.get("maxfrag"); c.send_sni = (int) p.get("sni"); c.chain = p.get("chain") != 0; c.ocsp = (int) p.get("ocsp");
    c.expected_name = p.gets("expected_name");
    c.max_early_data = (int) p.get("early", 0);
    c.ems_c = (int) p.get("ems_c", 0);
    c.ems_s = (int) p.get("ems_s", 0);
    c.fallback_scsv = p.get("fallback") != 0;
    c.key_shares = (int) p.get("key_shares", 0);
    c.ticket_key_id = (int) p.get("ticket_key", 1);
    for (int i = 0; i < 6; i++) {
        int64_t g = p.get("grp_c" + std::to_string(i)); if (g) { c.groups_c.push_back((uint16_t) g); }
        g = p.get("grp_s" + std::to_string(i)); if (g) { c.groups_s.push_back((uint16_t) g); }
        g = p.get("sig_c" + std::to_string(i)); if (g) { c.sigalgs_c.push_back((uint16_t) g); }
        g = p.get("sig_s" + std::to_string(i)); if (g) { c.sigalgs_s.push_back((uint16_t) g); }
    }
    return c;
}

TlsWorld::~TlsWorld() { teardown(); }

bool TlsWorld::setup(const PairCfg &c) {
    pc = c;
    vsim_set_node(NODE_HARNESS);
    KeySpec s, k;
    s.identity = pc.server_identity; s.forge_cert_sig = pc.forge_server_cert; s.forge_cert_mode = pc.forge_mode;
    s.chain = k.chain = pc.chain; s.ocsp = pc.ocsp;
    s.psk = pc.psk; s.ticket_keys = pc.tickets; s.ticket_key_id = pc.ticket_key_id; s.tls13_psk = pc.tls13_ext_psk;
    if (pc.client_auth && pc.client_identity != KK_NONE) { s.ca_mask = 1u << pc.client_identity; }
    else if (pc.client_auth) { s.ca_mask = 1u << KK_RSA2048; }
    k.identity = pc.client_identity; k.cert_is_ca = pc.client_cert_is_ca; k.forge_cert_sig = pc.forge_client_cert; k.forge_cert_mode = pc.forge_mode;
    k.psk = pc.psk; k.tls13_psk = pc.tls13_ext_psk;
    if (pc.tls13_ext_psk && !pc.suites.empty()) { s.tls13_psk_cipher = k.tls13_psk_cipher = pc.suites[0]; }
    if (pc.server_identity != KK_NONE) {
        if (pc.client_trusts_server) { k.ca_mask = 1u << pc.server_identity; }
        else { k.ca_mask = 1u << (pc.server_identity == KK_EC384 ? KK_EC521 : KK_EC384); }   // some other CA: unknown issuer
    }
    if (pc.ocsp) { k.ca_mask |= 1u << KK_EC384; }      // the stapled test responses are signed by the P-384 test certificate: the client must be able to authenticate that responder
    int rc = 0;
    vsim_set_node(NODE_SERVER);
    skeys = load_keys(s, &rc);
    if (!skeys) { setup_rc = rc; return false; }
    vsim_set_node(NODE_CLIENT);
    ckeys = load_keys(k, &rc);
    if (!ckeys) { setup_rc = rc; return false; }
    vsim_set_node(NODE_HARNESS);
    rc = matrixSslNewSessionId(&sid, nullptr);
    if (rc < 0) { setup_rc = rc; return false; }
    return true;
}

bool TlsWorld::connect(bool use_sid) {
    close_sessions();
    for (int d = 0; d < 2; d++) { emit_buf[d].clear(); wire[d].clear(); rec_index[d] = 0; stopped[d] = false; captured[d].clear(); }
    EpCfg s, c;
    s.server = true; s.node = NODE_SERVER; s.dtls = pc.dtls();
    c.server = false; c.node = NODE_CLIENT; c.dtls = pc.dtls();
    if (pc.version) { s.versions = { pc.version }; c.versions = { pc.version }; }
    else { s.versions = pc.versions_s; c.versions = pc.versions_c; }
    c.suites = pc.suites;
    s.client_auth = pc.client_auth;
    s.cb_policy = pc.cb_s == CB_NONE ? CB_STRICT : pc.cb_s;
    c.cb_policy = pc.cb_c; c.cb_allow_alert = pc.cb_allow_alert_c;
    c.expected_name = pc.expected_name;
    c.ticket_resumption = pc.tickets;
    c.ems = pc.ems_c; s.ems = pc.ems_s;
    c.fallback_scsv = pc.fallback_scsv;
    s.max_early_data = pc.max_early_data;
    c.groups = pc.groups_c; s.groups = pc.groups_s; c.key_shares = pc.key_shares;
    c.ocsp_stapling = pc.ocsp != 0;
    c.sigalgs = pc.sigalgs_c; s.sigalgs = pc.sigalgs_s; c.max_frag = pc.max_frag; c.send_sni = pc.send_sni;
    c.sid = use_sid ? sid : nullptr;
    srv.reset(new MxEndpoint()); cli.reset(new MxEndpoint());
    srv->keep_log = cli->keep_log = keep_logs;
    int rs = srv->create(s, skeys);
    int rcl = cli->create(c, ckeys);
    fp.add((uint64_t) (int64_t) rs); fp.add((uint64_t) (int64_t) rcl);
    return rs >= 0 && rcl >= 0;
}

void TlsWorld::collect(int dir) {
    MxEndpoint &e = ep(dir);
    if (!e.alive()) { return; }
    bool dtls = pc.dtls();
    for (int guard = 0; guard < 1000; guard++) {
        if (dtls) {
            if (!e.wants_send) { break; }
            Bytes d = e.pull();
            if (d.empty()) { break; }
            // one datagram: filter sees each record, output is re-assembled into one datagram per input datagram
            std::vector<Record> recs = split_records(d, true);
            Bytes outd;
            for (auto &r : recs) {
                r.dir = dir; r.index = rec_index[dir]++;
                captured[dir].push_back(r);
                if (getenv("VSIM_TRACE")) { fprintf(stderr, "   wire dir=%d rec#%d type=%d epoch=%d seq=%llu len=%zu hs0=%d\n", dir, r.index, r.type, r.epoch, (unsigned long long) r.seq, r.body_len(), r.body_len() ? r.raw[r.hdr] : -1); }
                std::vector<Bytes> out;
                if (filter) { filter(r, out); } else { out.push_back(r.raw); }
                for (auto &o : out) { outd.insert(outd.end(), o.begin(), o.end()); }
            }
            if (!outd.empty()) { wire[dir].push_back(outd); }
            continue;
        }
        size_t avail = e.pending_out();
        if (!avail) { break; }
        size_t want = drainer ? drainer(dir, avail) : avail;
        if (want == 0) { break; }
        Bytes b = e.pull(want);
        if (b.empty()) { break; }
        emit_buf[dir].insert(emit_buf[dir].end(), b.begin(), b.end());
        size_t off = 0; Record r;
        while (parse_record(emit_buf[dir], off, false, r)) {
            off += r.raw.size();
            r.dir = dir; r.index = rec_index[dir]++;
            captured[dir].push_back(r);
            if (getenv("VSIM_TRACE")) { fprintf(stderr, "   wire dir=%d rec#%d type=%d len=%zu hs0=%d\n", dir, r.index, r.type, r.body_len(), r.body_len() ? r.raw[r.hdr] : -1); }
            std::vector<Bytes> out;
            if (filter) { filter(r, out); } else { out.push_back(r.raw); }
            for (auto &o : out) { if (!o.empty()) { wire[dir].push_back(o); } }
        }
        emit_buf[dir].erase(emit_buf[dir].begin(), emit_buf[dir].begin() + off);
        if (drainer) { break; }   // partial-send schedules interleave: one drain decision per pump round
    }
}

bool TlsWorld::deliver(int dir) {
    if (stopped[dir] || wire[dir].empty()) { return false; }
    MxEndpoint &rcv = peer(dir);
    if (!rcv.alive()) { wire[dir].clear(); return false; }
    if (pc.dtls()) {
        Bytes d = wire[dir].front(); wire[dir].pop_front();
        rcv.feed(d.data(), d.size());
        return true;
    }
    if (record_granular) { Bytes u = wire[dir].front(); wire[dir].pop_front(); rcv.feed(u.data(), u.size()); return true; }
    // TLS: coalesce everything queued, then deliver what the chunker says
    Bytes all;
    for (auto &u : wire[dir]) { all.insert(all.end(), u.begin(), u.end()); }
    wire[dir].clear();
    size_t n = chunker ? chunker(dir, all.size()) : all.size();
    if (n == 0 || n > all.size()) { n = all.size(); }
    rcv.feed(all.data(), n);
    if (n < all.size()) { wire[dir].push_back(Bytes(all.begin() + n, all.end())); }
    return true;
}

bool TlsWorld::pump_once() {
    bool moved = false;
    collect(DIR_C2S); collect(DIR_S2C);
    if (deliver(DIR_C2S)) { moved = true; }
    collect(DIR_S2C);
    if (deliver(DIR_S2C)) { moved = true; }
    steps++;
    return moved;
}

int TlsWorld::pump(int max_steps) {
    int n = 0;
    while (n < max_steps && pump_once()) { n++; }
    // a final collect so that anything queued by the last delivery is on the wire
    collect(DIR_C2S); collect(DIR_S2C);
    return n;
}

bool TlsWorld::handshake(int max_steps) {
    int n = 0;
    while (n < max_steps) {
        bool moved = pump_once();
        n++;
        if (cli && srv && cli->is_complete() && srv->is_complete() && wire[0].empty() && wire[1].empty() && !moved) { break; }
        if (!moved) { break; }
    }
    return cli && srv && cli->is_complete() && srv->is_complete();
}

void TlsWorld::close_sessions() {
    if (cli) { fp.add(cli->fp.value()); cli->destroy(); }
    if (srv) { fp.add(srv->fp.value()); srv->destroy(); }
}

void TlsWorld::teardown() {
    close_sessions();
    cli.reset(); srv.reset();
    vsim_set_node(NODE_HARNESS);
    if (!own_keys) { sid = nullptr; ckeys = nullptr; skeys = nullptr; return; }
    if (sid) { matrixSslDeleteSessionId(sid); sid = nullptr; }
    if (ckeys) { matrixSslDeleteKeys(ckeys); ckeys = nullptr; }
    if (skeys) { matrixSslDeleteKeys(skeys); skeys = nullptr; }
}

uint64_t TlsWorld::fingerprint() {
    Fingerprint f = fp;
    if (cli) { f.add(cli->fp.value()); }
    if (srv) { f.add(srv->fp.value()); }
    for (int d = 0; d < 2; d++) { for (auto &r : captured[d]) { f.add(r.raw.data(), r.raw.size()); } }
    return f.value();
}
