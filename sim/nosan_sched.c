/* Thread engine scheduler (C20).  Compiled WITHOUT any sanitizer (file name prefix nosan_): the hand-off between threads uses
 * futex + __atomic operations that ThreadSanitizer must not see, otherwise every hand-off would look like synchronisation between the
 * program's threads and hide its races.  Real pthreads run the real library; exactly one of them is runnable at any time, and the seeded
 * scheduler decides at every scheduling point (mutex lock/unlock, allocation, clock read, entropy read, explicit yield) who goes next.
 */
#define _GNU_SOURCE
#include <pthread.h>
#include <stdint.h>
#include <stdio.h>
#include <string.h>
#include <unistd.h>
#include <linux/futex.h>
#include <sys/syscall.h>
#include "vsched.h"

#define MAXT VS_MAX_THREADS
enum { ST_UNUSED = 0, ST_RUNNABLE, ST_BLOCKED, ST_DONE };

typedef struct { int go; int state; const void *wait_mutex; pthread_t th; void (*fn)(int, void *); void *arg; } thr_t;
static thr_t g_t[MAXT + 1];              /* 0 = controller (the thread that called vs_run) */
static int g_n, g_active;
static __thread int t_self = -1;
static uint64_t g_rng, g_hash, g_switches, g_points, g_event_seq;
static unsigned g_switch_den = 8, g_kind_mask = 0xff;
static int g_prio_mode; static int g_prio[MAXT + 1]; static uint64_t g_prio_change_at[4]; static int g_prio_changes;
typedef struct { const void *m; int owner; } mx_t;
#define MAXM 128
static mx_t g_mx[MAXM];
static uint64_t g_kind_count[8];
static uint64_t g_contended, g_max_blocked;

static long futex(int *addr, int op, int val)
{
    long ret;
    register long r10 __asm__("r10") = 0;   /* timeout = NULL */
    __asm__ volatile ("syscall" : "=a"(ret) : "a"(SYS_futex), "D"(addr), "S"(op), "d"(val), "r"(r10) : "rcx", "r11", "memory");
    return ret;
}
static void park(int self)
{
    while (__atomic_load_n(&g_t[self].go, __ATOMIC_SEQ_CST) == 0) { futex(&g_t[self].go, FUTEX_WAIT_PRIVATE, 0); }
    __atomic_store_n(&g_t[self].go, 0, __ATOMIC_SEQ_CST);
}
static void wake(int t)
{
    __atomic_store_n(&g_t[t].go, 1, __ATOMIC_SEQ_CST);
    futex(&g_t[t].go, FUTEX_WAKE_PRIVATE, 1);
}
static uint64_t rnd(void)
{
    uint64_t z = (g_rng += 0x9e3779b97f4a7c15ULL);
    z = (z ^ (z >> 30)) * 0xbf58476d1ce4e5b9ULL; z = (z ^ (z >> 27)) * 0x94d049bb133111ebULL;
    return z ^ (z >> 31);
}
static void hash_add(uint64_t v) { g_hash = (g_hash ^ v) * 0x100000001b3ULL; }

static mx_t *mx_find(const void *m, int create)
{
    int free_slot = -1;
    for (int i = 0; i < MAXM; i++) {
        if (g_mx[i].m == m) { return &g_mx[i]; }
        if (!g_mx[i].m && free_slot < 0) { free_slot = i; }
    }
    if (!create || free_slot < 0) { return NULL; }
    g_mx[free_slot].m = m; g_mx[free_slot].owner = 0;
    return &g_mx[free_slot];
}

static void die_deadlock(void)
{
    char buf[512]; int n = snprintf(buf, sizeof buf, "VSIM-DEADLOCK: no runnable thread;");
    for (int i = 1; i <= g_n; i++) {
        if (g_t[i].state == ST_BLOCKED) {
            mx_t *x = mx_find(g_t[i].wait_mutex, 0);
            n += snprintf(buf + n, sizeof buf - (size_t) n, " T%d waits for mutex %p held by T%d;", i, g_t[i].wait_mutex, x ? x->owner : -1);
        }
    }
    n += snprintf(buf + n, sizeof buf - (size_t) n, "\n");
    (void) !write(2, buf, (size_t) n);
    _exit(80);
}

/* choose the next thread to run among the runnable ones; `self` may be chosen again when it is runnable */
static int pick(int self, int must_leave)
{
    int cand[MAXT], nc = 0;
    for (int i = 1; i <= g_n; i++) { if (g_t[i].state == ST_RUNNABLE && !(must_leave && i == self)) { cand[nc++] = i; } }
    if (nc == 0) { return 0; }
    if (g_prio_mode) {
        /* PCT-style: highest priority runnable thread runs; priorities change at a few seeded points */
        int best = cand[0];
        for (int i = 1; i < nc; i++) { if (g_prio[cand[i]] > g_prio[best]) { best = cand[i]; } }
        return best;
    }
    return cand[rnd() % (uint64_t) nc];
}

static void switch_from(int self, int next)
{
    if (next == self) { return; }
    g_switches++; hash_add(((uint64_t) self << 8) | (uint64_t) next); hash_add(g_points);
    wake(next);
    park(self);
}

int vs_active(void) { return g_active && t_self > 0; }
int vs_self(void) { return t_self; }
uint64_t vs_event_seq(void) { return ++g_event_seq; }

void vs_point(int kind)
{
    if (!g_active || t_self <= 0) { return; }
    int self = t_self;
    g_points++; g_kind_count[kind & 7]++;
    if (!(g_kind_mask & (1u << (kind & 7)))) { return; }
    if (g_prio_mode) {
        for (int i = 0; i < g_prio_changes; i++) {
            if (g_points == g_prio_change_at[i]) { g_prio[self] = -(i + 1); }      /* the running thread drops below everybody */
        }
        int nx = pick(self, 0);
        if (nx && nx != self) { switch_from(self, nx); }
        return;
    }
    if (rnd() % g_switch_den != 0) { return; }
    int nx = pick(self, 0);
    if (nx && nx != self) { switch_from(self, nx); }
}

/* called before the real pthread_mutex_lock: returns when the model says the mutex is free and this thread holds the token */
void vs_mutex_before_lock(const void *m)
{
    if (!g_active || t_self <= 0) { return; }
    int self = t_self;
    vs_point(VS_K_MUTEX);
    for (;;) {
        mx_t *x = mx_find(m, 1);
        if (!x) { return; }
        if (x->owner == 0) { x->owner = self; return; }
        if (x->owner == self) { return; }    /* recursive / error-checking mutexes are the library's business */
        g_contended++;
        g_t[self].state = ST_BLOCKED; g_t[self].wait_mutex = m;
        uint64_t nb = 0; for (int i = 1; i <= g_n; i++) { if (g_t[i].state == ST_BLOCKED) { nb++; } }
        if (nb > g_max_blocked) { g_max_blocked = nb; }
        int nx = pick(self, 1);
        if (!nx) { die_deadlock(); }
        switch_from(self, nx);
        /* woken: state was set RUNNABLE by the unlocker; try again */
    }
}
/* called after the real pthread_mutex_unlock */
void vs_mutex_after_unlock(const void *m)
{
    if (!g_active || t_self <= 0) { return; }
    mx_t *x = mx_find(m, 0);
    if (x && x->owner == t_self) {
        x->owner = 0; x->m = NULL;
        for (int i = 1; i <= g_n; i++) { if (g_t[i].state == ST_BLOCKED && g_t[i].wait_mutex == m) { g_t[i].state = ST_RUNNABLE; g_t[i].wait_mutex = NULL; } }
    }
    vs_point(VS_K_MUTEX);
}

static void *tramp(void *arg)
{
    int self = (int) (intptr_t) arg;
    t_self = self;
    park(self);                       /* wait to be scheduled for the first time */
    g_t[self].fn(self, g_t[self].arg);
    /* done: hand the token on */
    g_t[self].state = ST_DONE;
    int nx = pick(self, 1);
    if (!nx) {
        int blocked = 0; for (int i = 1; i <= g_n; i++) { if (g_t[i].state == ST_BLOCKED) { blocked = 1; } }
        if (blocked) { die_deadlock(); }
        nx = 0;                       /* everybody done: back to the controller */
    }
    g_switches++; hash_add(((uint64_t) self << 8) | (uint64_t) nx);
    g_active = nx ? 1 : 0;
    wake(nx);
    return NULL;
}

int vs_run(int n, void (*fn)(int, void *), void **args, const vs_cfg_t *cfg, vs_stats_t *st)
{
    if (n < 1 || n > MAXT) { return -1; }
    memset(g_t, 0, sizeof g_t); memset(g_mx, 0, sizeof g_mx); memset(g_kind_count, 0, sizeof g_kind_count);
    g_n = n; g_rng = cfg->seed; g_hash = 0xcbf29ce484222325ULL; g_switches = g_points = 0; g_contended = g_max_blocked = 0;
    g_switch_den = cfg->switch_den ? cfg->switch_den : 8; g_kind_mask = cfg->kind_mask;
    g_prio_mode = cfg->pct_depth > 0; g_prio_changes = cfg->pct_depth > 4 ? 4 : cfg->pct_depth;
    for (int i = 1; i <= n; i++) { g_prio[i] = (int) (rnd() % 1000) + 10; }
    for (int i = 0; i < g_prio_changes; i++) { g_prio_change_at[i] = 1 + rnd() % (cfg->pct_span ? cfg->pct_span : 2000); }
    for (int i = 1; i <= n; i++) {
        g_t[i].state = ST_RUNNABLE; g_t[i].fn = fn; g_t[i].arg = args ? args[i - 1] : NULL;
        if (pthread_create(&g_t[i].th, NULL, tramp, (void *) (intptr_t) i) != 0) { return -1; }
    }
    g_active = 1;
    int first = pick(0, 0);
    hash_add((uint64_t) first);
    wake(first);
    park(0);                          /* until every thread is done */
    g_active = 0;
    for (int i = 1; i <= n; i++) { pthread_join(g_t[i].th, NULL); }
    if (st) {
        st->switches = g_switches; st->points = g_points; st->schedule_hash = g_hash; st->contended_locks = g_contended; st->max_blocked = g_max_blocked;
        for (int k = 0; k < 8; k++) { st->kind_count[k] = g_kind_count[k]; }
    }
    return 0;
}
