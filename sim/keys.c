/* Test credentials straight from the repository (read at build time from /repo/testkeys).
 * A C file because the key headers use exact-size string initialisers, which C++ rejects. */
#include <stddef.h>
#include "testkeys/RSA/2048_RSA.h"
#include "testkeys/RSA/2048_RSA_KEY.h"
#include "testkeys/RSA/2048_RSA_CA.h"
#include "testkeys/RSA/1024_RSA.h"
#include "testkeys/RSA/1024_RSA_KEY.h"
#include "testkeys/RSA/1024_RSA_CA.h"
#include "testkeys/EC/256_EC.h"
#include "testkeys/EC/256_EC_KEY.h"
#include "testkeys/EC/256_EC_CA.h"
#include "testkeys/EC/384_EC.h"
#include "testkeys/EC/384_EC_KEY.h"
#include "testkeys/EC/384_EC_CA.h"
#include "testkeys/EC/521_EC.h"
#include "testkeys/EC/521_EC_KEY.h"
#include "testkeys/EC/521_EC_CA.h"
#include "testkeys/EC/ED25519.h"
#include "testkeys/EC/ED25519_KEY.h"
#include "testkeys/EC/ED25519_CA.h"
#include "testkeys/ECDH_RSA/256_ECDH-RSA.h"
#include "testkeys/ECDH_RSA/256_ECDH-RSA_KEY.h"
#include "testkeys/ECDH_RSA/1024_ECDH-RSA_CA.h"
/* the SHA-384-signed variants reuse the array names of the SHA-256-signed ones */
#define EC384 EC384_S384
#define EC384CA EC384CA_S384
#undef EC384_SIZE
#undef EC384CA_SIZE
#include "testkeys/EC/384_EC_SHA384.h"
#include "testkeys/EC/384_EC_CA_SHA384.h"
#undef EC384
#undef EC384CA
#undef EC384_SIZE
#undef EC384CA_SIZE
#include "testkeys/PSK/psk.h"
#include "testkeys/PSK/tls13_psk.h"
#include "testkeys/OCSP/responses/OCSP_256_EC_GOOD.h"
#include "testkeys/OCSP/responses/OCSP_256_EC_REVOKED.h"
#include "assets/pathlen_chain.h"
#include "assets/pem_bundle.h"
#include "keys.h"

#define KM(c, k, a) { c, sizeof c, k, sizeof k, a, sizeof a }
int vsim_keymat(int kind, struct vsim_keymat *m)
{
    static const struct vsim_keymat T[] = {
        { 0, 0, 0, 0, 0, 0 },
        KM(RSA2048, RSA2048KEY, RSA2048CA),       /* KK_RSA2048 = 1 */
        KM(EC256, EC256KEY, EC256CA),             /* KK_EC256 */
        KM(EC384, EC384KEY, EC384CA),             /* KK_EC384 */
        KM(ECDHRSA256, ECDHRSA256KEY, ECDHRSA1024CA), /* KK_ECDH_RSA */
        KM(ED25519, ED25519_KEY, ED25519CA),      /* KK_ED25519 */
        KM(RSA1024, RSA1024KEY, RSA1024CA),       /* KK_RSA1024 */
        KM(EC521, EC521KEY, EC521CA),             /* KK_EC521 */
    };
    if (kind == 9) { static const struct vsim_keymat S = KM(EC384_S384, EC384KEY, EC384CA_S384); *m = S; return 1; }   /* KK_EC384_SHA384 */
    if (kind == 10) { static const struct vsim_keymat S = KM(VSIM_PL_CHAIN, VSIM_PL_KEY, VSIM_PL_ROOT); *m = S; return 1; }   /* KK_EC256_PATHLEN: leaf + sub CA under a pathlen:0 root */
    if (kind < 1 || kind > 7) { return 0; }
    *m = T[kind];
    return 1;
}
int vsim_psk_count(void) { return (int) PSK_HEADER_TABLE_COUNT; }
void vsim_psk_get(int i, const unsigned char **id, int *idLen, const unsigned char **key, int *keyLen)
{
    *id = PSK_HEADER_TABLE[i].id; *idLen = sizeof PSK_HEADER_TABLE[i].id;
    *key = PSK_HEADER_TABLE[i].key; *keyLen = sizeof PSK_HEADER_TABLE[i].key;
}
void vsim_tls13_psk(const unsigned char **key, int *keyLen, const unsigned char **id, int *idLen)
{
    *key = g_tls13_test_psk_256; *keyLen = sizeof g_tls13_test_psk_256;
    *id = g_tls13_test_psk_id_sha256; *idLen = sizeof g_tls13_test_psk_id_sha256;
}

/* stapled OCSP responses for the P-256 test identity: 0 = good, 1 = revoked */
int vsim_ocsp_blob(int which, const unsigned char **p, size_t *n)
{
    if (which == 0) { *p = ocsp_256_ec_good; *n = sizeof ocsp_256_ec_good; return 1; }
    if (which == 1) { *p = ocsp_256_ec_revoked; *n = sizeof ocsp_256_ec_revoked; return 1; }
    return 0;
}

/* PEM identity bundle (two certificates) + PEM key */
void vsim_pem_bundle(const unsigned char **certs, size_t *certsLen, const unsigned char **key, size_t *keyLen)
{
    *certs = VSIM_PEM_BUNDLE; *certsLen = sizeof VSIM_PEM_BUNDLE - 1; *key = VSIM_PEM_KEY; *keyLen = sizeof VSIM_PEM_KEY - 1;
}
