#include "endpoint.h"
#include "peek.h"
extern "C" void vsim_free(void *p, const char *file, const char *func, int line);
#include <cstdlib>

#include "keys.h"

const char *keykind_name(int k) {
    switch (k) {
    case KK_NONE: return "none"; case KK_RSA2048: return "rsa2048"; case KK_EC256: return "ec256"; case KK_EC384: return "ec384";
    case KK_ECDH_RSA: return "ecdh_rsa"; case KK_ED25519: return "ed25519"; case KK_RSA1024: return "rsa1024"; case KK_EC521: return "ec521"; case KK_EC384_SHA384: return "ec384_sha384";
    case KK_PSK_ONLY: return "psk";
    }
    return "?";
}

typedef struct vsim_keymat KeyMat;
static bool keymat(int kind, KeyMat &m) { return vsim_keymat(kind, &m) != 0; }

void ticket_key_material(int id, unsigned char name[16], unsigned char sym[32], unsigned char mac[32]) {
    Rng r(0x71C4E7ULL + (uint64_t) id * 7919);
    for (int i = 0; i < 16; i++) { name[i] = (unsigned char) r.next(); }
    for (int i = 0; i < 32; i++) { sym[i] = (unsigned char) r.next(); }
    for (int i = 0; i < 32; i++) { mac[i] = (unsigned char) r.next(); }
}

// minimal DER walking for the certificate forger
static bool der_tlv(const Bytes &b, size_t off, size_t &hdr, size_t &len) {
    if (off + 2 > b.size()) { return false; }
    size_t l = b[off + 1]; hdr = 2;
    if (l & 0x80) { size_t n = l & 0x7f; if (n == 0 || n > 3 || off + 2 + n > b.size()) { return false; } l = 0; for (size_t i = 0; i < n; i++) { l = l << 8 | b[off + 2 + i]; } hdr = 2 + n; }
    len = l; return off + hdr + len <= b.size();
}
// signature BIT STRING content (without the unused-bits octet) of a certificate: offset and length
static bool der_cert_signature(const Bytes &c, size_t &off, size_t &len) {
    size_t h, l; if (!der_tlv(c, 0, h, l)) { return false; }
    size_t p = h; size_t h2, l2;
    if (!der_tlv(c, p, h2, l2)) { return false; } p += h2 + l2;      // tbsCertificate
    if (!der_tlv(c, p, h2, l2)) { return false; } p += h2 + l2;      // signatureAlgorithm
    if (!der_tlv(c, p, h2, l2) || c[p] != 0x03 || l2 < 2) { return false; }
    off = p + h2 + 1; len = l2 - 1; return true;
}
// last byte of the issuer Name inside tbsCertificate
static bool der_cert_issuer_last_byte(const Bytes &c, size_t &off) {
    size_t h, l; if (!der_tlv(c, 0, h, l)) { return false; }
    size_t p = h; size_t h2, l2;
    if (!der_tlv(c, p, h2, l2)) { return false; } p += h2;           // into tbsCertificate
    if (c[p] == 0xa0) { if (!der_tlv(c, p, h2, l2)) { return false; } p += h2 + l2; }   // [0] version
    if (!der_tlv(c, p, h2, l2)) { return false; } p += h2 + l2;      // serialNumber
    if (!der_tlv(c, p, h2, l2)) { return false; } p += h2 + l2;      // signature algorithm
    if (!der_tlv(c, p, h2, l2) || c[p] != 0x30 || l2 < 4) { return false; }   // issuer Name
    off = p + h2 + l2 - 1; return true;
}

sslKeys_t *load_keys(const KeySpec &ks, int *rc_out) {
    sslKeys_t *keys = nullptr;
    int rc = matrixSslNewKeys(&keys, nullptr);
    if (rc < 0) { if (rc_out) { *rc_out = rc; } return nullptr; }
    Bytes cas;
    for (int k = 1; k <= KK_EC256_PATHLEN; k++) {
        if (ks.ca_mask & (1u << k)) { KeyMat m; if (keymat(k, m)) { cas.insert(cas.end(), m.ca, m.ca + m.caLen); } }
    }
    KeyMat id; bool have_id = keymat(ks.identity, id);
    Bytes forged;
    if (have_id && ks.forge_cert_sig) {
        forged.assign(id.cert, id.cert + id.certLen);
        bool done = false;
        if (ks.forge_cert_mode == 1) {
            Bytes ca(id.ca, id.ca + id.caLen);
            size_t so, sl, co, cl, io;
            // only the FIRST certificate of the blobs is looked at (test identities are single leaf + single CA)
            if (der_cert_signature(forged, so, sl) && der_cert_signature(ca, co, cl) && sl == cl && der_cert_issuer_last_byte(forged, io)) {
                memcpy(forged.data() + so, ca.data() + co, sl);
                forged[io] ^= 0x01;
                done = true;
            }
        }
        if (!done) { forged[forged.size() - 6] ^= 0x04; }
        id.cert = forged.data();
    }
    if (have_id && ks.cert_is_ca) { id.cert = id.ca; id.certLen = id.caLen; }
    Bytes chained;
    if (have_id && ks.chain) { chained.assign(id.cert, id.cert + id.certLen); chained.insert(chained.end(), id.ca, id.ca + id.caLen); id.cert = chained.data(); id.certLen = chained.size(); }
    if (have_id || !cas.empty()) {
        rc = matrixSslLoadKeysMem(keys, have_id ? id.cert : nullptr, have_id ? (int32) id.certLen : 0,
                                  have_id ? id.key : nullptr, have_id ? (int32) id.keyLen : 0,
                                  cas.empty() ? nullptr : cas.data(), (int32) cas.size(), nullptr);
        if (rc < 0) { if (rc_out) { *rc_out = rc; } matrixSslDeleteKeys(keys); return nullptr; }
    }
    if (ks.ocsp) {
        const unsigned char *ob; size_t on;
        if (vsim_ocsp_blob(ks.ocsp - 1, &ob, &on)) { rc = matrixSslLoadOCSPResponse(keys, ob, (psSize_t) on); if (rc < 0) { if (rc_out) { *rc_out = rc; } matrixSslDeleteKeys(keys); return nullptr; } }
    }
    if (ks.psk) {
        for (int i = 0; i < vsim_psk_count(); i++) {
            const unsigned char *pid, *pkey; int pidLen, pkeyLen;
            vsim_psk_get(i, &pid, &pidLen, &pkey, &pkeyLen);
            rc = matrixSslLoadPsk(keys, pkey, (uint8_t) pkeyLen, pid, (uint8_t) pidLen);
            if (rc < 0) { if (rc_out) { *rc_out = rc; } matrixSslDeleteKeys(keys); return nullptr; }
        }
    }
    if (ks.tls13_psk) {
        const unsigned char *pid, *pkey; int pidLen, pkeyLen;
        vsim_tls13_psk(&pkey, &pkeyLen, &pid, &pidLen);
        rc = vsim_load_tls13_psk((struct sslKeys *) keys, pkey, pkeyLen, pid, pidLen, 16384, ks.tls13_psk_cipher);
        if (rc < 0) { if (rc_out) { *rc_out = rc; } matrixSslDeleteKeys(keys); return nullptr; }
    }
    if (ks.ticket_keys) {
        unsigned char name[16], sym[32], mac[32];
        ticket_key_material(ks.ticket_key_id, name, sym, mac);
        rc = matrixSslLoadSessionTicketKeys(keys, name, sym, 32, mac, 32);
        if (rc < 0) { if (rc_out) { *rc_out = rc; } matrixSslDeleteKeys(keys); return nullptr; }
    }
    if (rc_out) { *rc_out = 0; }
    return keys;
}

// ------------------------------------------------------------------ versions / suites
uint32_t ver_from_name(const std::string &n) {
    if (n == "tls1.1") { return v_tls_1_1; } if (n == "tls1.2") { return v_tls_1_2; } if (n == "tls1.3") { return v_tls_1_3; }
    if (n == "dtls1.0") { return v_dtls_1_0; } if (n == "dtls1.2") { return v_dtls_1_2; }
    return 0;
}
const char *ver_name(uint32_t v) {
    v &= 0xffffff;
    switch (v) {
    case v_tls_1_0: return "tls1.0"; case v_tls_1_1: return "tls1.1"; case v_tls_1_2: return "tls1.2"; case v_tls_1_3: return "tls1.3";
    case v_dtls_1_0: return "dtls1.0"; case v_dtls_1_2: return "dtls1.2"; case 0: return "none";
    }
    return "other";
}
struct SuiteInfo { uint16_t id; const char *name; int auth; bool aead; bool min12; };
static const SuiteInfo SUITES[] = {
    { TLS_RSA_WITH_AES_128_CBC_SHA, "RSA-AES128-CBC-SHA", KK_RSA2048, false, false },
    { TLS_RSA_WITH_AES_256_CBC_SHA, "RSA-AES256-CBC-SHA", KK_RSA2048, false, false },
    { TLS_RSA_WITH_AES_128_CBC_SHA256, "RSA-AES128-CBC-SHA256", KK_RSA2048, false, true },
    { TLS_RSA_WITH_AES_256_CBC_SHA256, "RSA-AES256-CBC-SHA256", KK_RSA2048, false, true },
    { TLS_RSA_WITH_AES_128_GCM_SHA256, "RSA-AES128-GCM", KK_RSA2048, true, true },
    { TLS_RSA_WITH_AES_256_GCM_SHA384, "RSA-AES256-GCM", KK_RSA2048, true, true },
    { TLS_ECDHE_RSA_WITH_AES_128_CBC_SHA, "ECDHE-RSA-AES128-CBC-SHA", KK_RSA2048, false, false },
    { TLS_ECDHE_RSA_WITH_AES_256_CBC_SHA, "ECDHE-RSA-AES256-CBC-SHA", KK_RSA2048, false, false },
    { TLS_ECDHE_RSA_WITH_AES_128_CBC_SHA256, "ECDHE-RSA-AES128-CBC-SHA256", KK_RSA2048, false, true },
    { TLS_ECDHE_RSA_WITH_AES_256_CBC_SHA384, "ECDHE-RSA-AES256-CBC-SHA384", KK_RSA2048, false, true },
    { TLS_ECDHE_RSA_WITH_AES_128_GCM_SHA256, "ECDHE-RSA-AES128-GCM", KK_RSA2048, true, true },
    { TLS_ECDHE_RSA_WITH_AES_256_GCM_SHA384, "ECDHE-RSA-AES256-GCM", KK_RSA2048, true, true },
    { TLS_ECDHE_ECDSA_WITH_AES_128_CBC_SHA, "ECDHE-ECDSA-AES128-CBC-SHA", KK_EC256, false, false },
    { TLS_ECDHE_ECDSA_WITH_AES_256_CBC_SHA, "ECDHE-ECDSA-AES256-CBC-SHA", KK_EC256, false, false },
    { TLS_ECDHE_ECDSA_WITH_AES_128_CBC_SHA256, "ECDHE-ECDSA-AES128-CBC-SHA256", KK_EC256, false, true },
    { TLS_ECDHE_ECDSA_WITH_AES_256_CBC_SHA384, "ECDHE-ECDSA-AES256-CBC-SHA384", KK_EC256, false, true },
    { TLS_ECDHE_ECDSA_WITH_AES_128_GCM_SHA256, "ECDHE-ECDSA-AES128-GCM", KK_EC256, true, true },
    { TLS_ECDHE_ECDSA_WITH_AES_256_GCM_SHA384, "ECDHE-ECDSA-AES256-GCM", KK_EC256, true, true },
    { TLS_ECDH_ECDSA_WITH_AES_128_CBC_SHA, "ECDH-ECDSA-AES128-CBC-SHA", KK_EC256, false, false },
    { TLS_ECDH_ECDSA_WITH_AES_128_GCM_SHA256, "ECDH-ECDSA-AES128-GCM", KK_EC256, true, true },
    { TLS_ECDH_RSA_WITH_AES_128_CBC_SHA, "ECDH-RSA-AES128-CBC-SHA", KK_ECDH_RSA, false, false },
    { TLS_ECDH_RSA_WITH_AES_128_GCM_SHA256, "ECDH-RSA-AES128-GCM", KK_ECDH_RSA, true, true },
    { TLS_PSK_WITH_AES_128_CBC_SHA, "PSK-AES128-CBC-SHA", KK_PSK_ONLY, false, false },
    { TLS_PSK_WITH_AES_256_CBC_SHA, "PSK-AES256-CBC-SHA", KK_PSK_ONLY, false, false },
    { TLS_PSK_WITH_AES_128_CBC_SHA256, "PSK-AES128-CBC-SHA256", KK_PSK_ONLY, false, true },
    { TLS_AES_128_GCM_SHA256, "TLS13-AES128-GCM", KK_NONE, true, true },
    { TLS_AES_256_GCM_SHA384, "TLS13-AES256-GCM", KK_NONE, true, true },
    { TLS_CHACHA20_POLY1305_SHA256, "TLS13-CHACHA20", KK_NONE, true, true },
};
static const SuiteInfo *suite_info(uint16_t id) {
    for (auto &s : SUITES) { if (s.id == id) { return &s; } }
    return nullptr;
}
const char *suite_name(uint16_t id) { auto s = suite_info(id); return s ? s->name : "?"; }
bool suite_is_tls13(uint16_t id) { return id == TLS_AES_128_GCM_SHA256 || id == TLS_AES_256_GCM_SHA384 || id == TLS_CHACHA20_POLY1305_SHA256; }
int suite_auth_kind(uint16_t id) { auto s = suite_info(id); return s ? s->auth : KK_NONE; }
bool suite_is_aead(uint16_t id) { auto s = suite_info(id); return s ? s->aead : false; }
bool suite_min_tls12(uint16_t id) { auto s = suite_info(id); return s ? s->min12 : false; }
const std::vector<uint16_t> &all_tls12_suites() {
    static std::vector<uint16_t> v;
    if (v.empty()) { for (auto &s : SUITES) { if (!suite_is_tls13(s.id)) { v.push_back(s.id); } } }
    return v;
}
const std::vector<uint16_t> &all_tls13_suites() {
    static std::vector<uint16_t> v = { TLS_AES_128_GCM_SHA256, TLS_AES_256_GCM_SHA384, TLS_CHACHA20_POLY1305_SHA256 };
    return v;
}

static bool g_open = false;
void sim_global_open() {
    if (g_open) { return; }
    vsim_set_node(NODE_HARNESS);
    if (matrixSslOpen() < 0) { fprintf(stderr, "vsim: matrixSslOpen failed\n"); abort(); }
    g_open = true;
}
void sim_global_close() {
    if (!g_open) { return; }
    vsim_set_node(NODE_HARNESS);
    matrixSslClose();
    g_open = false;
}

// ------------------------------------------------------------------ endpoint
static int32_t cert_cb(ssl_t *ssl, psX509Cert_t *cert, int32_t alert) {
    (void) cert;
    MxEndpoint *ep = (MxEndpoint *) vsim_peek_userptr((const struct ssl *) ssl);
    if (!ep) { return alert; }
    ep->cb_calls++;
    ep->cb_last_alert = alert;
    ep->cb_alerts.push_back(alert);
    int ret = alert;
    switch (ep->cfg.cb_policy) {
    case CB_STRICT: ret = alert; break;
    case CB_ALLOW_ALL: ret = 0; break;
    case CB_ALLOW_ONE: ret = (alert == ep->cfg.cb_allow_alert) ? 0 : alert; break;
    default: ret = alert; break;
    }
    ep->cb_last_ret = ret;
    ep->log("cert_cb", ret, (uint32_t) alert);
    return ret;
}

static int g_trace = -1;
void MxEndpoint::log(const char *api, int rc, uint32_t len, uint64_t digest) {
    if (g_trace < 0) { g_trace = getenv("VSIM_TRACE") ? 1 : 0; }
    if (g_trace) { fprintf(stderr, "[n%d %s hs=%d] %s rc=%d len=%u dg=%llx\n", node, cfg.server ? "srv" : "cli", hs_state(), api, rc, len, (unsigned long long) digest); }
    events.push_back({ api, rc, len, digest });
    fp.add(hash_str(api)); fp.add((uint64_t) (int64_t) rc); fp.add(len); fp.add(digest);
}

int MxEndpoint::create(const EpCfg &c, const sslKeys_t *keys) {
    cfg = c; node = c.node;
    vsim_set_node(node);
    sslSessOpts_t opt;
    memset(&opt, 0, sizeof opt);
    opt.userPtr = this;
    int rc = 0;
    if (cfg.dtls) {
        // DTLS is selected through versionFlag only (the version-list setters refuse DTLS versions)
        bool v12 = false, v10 = false;
        for (auto v : cfg.versions) { if (v == v_dtls_1_2) { v12 = true; } if (v == v_dtls_1_0) { v10 = true; } }
        if (cfg.versions.empty()) { v12 = true; }
        opt.versionFlag = SSL_FLAGS_DTLS | (v12 ? SSL_FLAGS_TLS_1_2 : SSL_FLAGS_TLS_1_1);
        (void) v10;
    } else if (!cfg.versions.empty()) {
        psProtocolVersion_t vers[8]; int n = 0;
        for (auto v : cfg.versions) { if (n < 8) { vers[n++] = (psProtocolVersion_t) v; } }
        rc = cfg.server ? matrixSslSessOptsSetServerTlsVersions(&opt, vers, n) : matrixSslSessOptsSetClientTlsVersions(&opt, vers, n);
        if (rc < 0) { create_rc = rc; log("SessOptsSetVersions", rc); return rc; }
    }
    if (cfg.ems < 0) { opt.extendedMasterSecret = -1; }
    if (cfg.ems > 0) { opt.extendedMasterSecret = 1; }
    if (cfg.ticket_resumption) { opt.ticketResumption = 1; }
    if (cfg.ocsp_stapling && !cfg.server) { opt.OCSPstapling = 1; }
    if (cfg.fallback_scsv) { opt.fallbackScsv = 1; }
    if (cfg.max_frag > 0 && !cfg.server) { opt.maxFragLen = cfg.max_frag; }
    if (cfg.max_early_data > 0) { opt.tls13SessionMaxEarlyData = (psSize_t) cfg.max_early_data; }
    if (!cfg.groups.empty()) {
        // the same list also restricts the TLS <= 1.2 / DTLS curves (sslSessOpts_t.ecFlags; NIST curves only: X25519 is a TLS 1.3 group here)
        int32 ef = 0;
        for (auto g : cfg.groups) { if (g == 23) { ef |= IS_SECP256R1; } else if (g == 24) { ef |= IS_SECP384R1; } else if (g == 25) { ef |= IS_SECP521R1; } }
        if (ef) { opt.ecFlags = ef; }
        rc = matrixSslSessOptsSetKeyExGroups(&opt, cfg.groups.data(), (psSize_t) cfg.groups.size(), (psSize_t) (cfg.key_shares ? cfg.key_shares : 1));
        if (rc < 0) { create_rc = rc; log("SessOptsSetKeyExGroups", rc); return rc; }
    }
    if (!cfg.sigalgs.empty()) {
        rc = matrixSslSessOptsSetSigAlgs(&opt, cfg.sigalgs.data(), (psSize_t) cfg.sigalgs.size());
        if (rc < 0) { create_rc = rc; log("SessOptsSetSigAlgs", rc); return rc; }
    }
    if (cfg.ec_flags) { opt.ecFlags = cfg.ec_flags; }
    sslCertCb_t cb = cfg.cb_policy == CB_NONE ? nullptr : cert_cb;
    if (cfg.server) {
        if (cfg.client_auth) {
            // client auth is requested by passing a non-NULL certCb in this API; CB_NONE + client auth is expressed
            // by registering the callback-less path through matrixSslNewServerSession's flag (see below)
        }
        rc = matrixSslNewServerSession(&ssl, keys, cfg.client_auth ? (cb ? cb : cert_cb) : nullptr, &opt);
        if (rc >= 0 && cfg.client_auth && cfg.cb_policy == CB_NONE) {
            // With NULL certCb the server API does not request client auth at all; "no callback" for a server with
            // client auth is therefore not expressible through the documented API and such cfgs are not generated.
        }
    } else {
        tlsExtension_t *ext = nullptr;
        if (cfg.send_sni && !cfg.expected_name.empty() && matrixSslNewHelloExtension(&ext, nullptr) >= 0) {
            unsigned char *sni = nullptr; int32 sniLen = 0;
            if (matrixSslCreateSNIext(nullptr, (unsigned char *) cfg.expected_name.c_str(), (int32) cfg.expected_name.size(), &sni, &sniLen) >= 0) {
                matrixSslLoadHelloExtension(ext, sni, (uint32) sniLen, EXT_SNI);
                vsim_free(sni, __FILE__, __func__, __LINE__);     // allocated by the library through the allocator seam: give it back the same way
            }
            if (cfg.send_sni >= 2) {
                // protocol_name_list { "h2", "http/1.1" } (matrixSslCreateALPNext exists only with USE_ALPN; the list entry itself needs nothing compiled in)
                unsigned char alpn[] = { 0, 12, 2, 'h', '2', 8, 'h', 't', 't', 'p', '/', '1', '.', '1' };
                matrixSslLoadHelloExtension(ext, alpn, (uint32) sizeof alpn, 16 /* application_layer_protocol_negotiation */);
            }
            if (cfg.send_sni >= 3) { unsigned char priv[5] = { 1, 2, 3, 4, 5 }; matrixSslLoadHelloExtension(ext, priv, 5, 0xff77); }
        }
        rc = matrixSslNewClientSession(&ssl, keys, cfg.sid, cfg.suites.empty() ? nullptr : cfg.suites.data(),
                                       (uint8_t) cfg.suites.size(), cb, cfg.expected_name.empty() ? nullptr : cfg.expected_name.c_str(),
                                       ext, nullptr, &opt);
        if (ext) { matrixSslDeleteHelloExtension(ext); }
    }
    create_rc = rc;
    log(cfg.server ? "NewServerSession" : "NewClientSession", rc);
    if (rc < 0) { ssl = nullptr; return rc; }
    if (rc == MATRIXSSL_REQUEST_SEND) { wants_send = true; }
    if (on_api) { on_api(*this, "create"); }
    return rc;
}

void MxEndpoint::destroy() {
    if (ssl) {
        vsim_set_node(node);
        matrixSslDeleteSession(ssl);
        ssl = nullptr;
        log("DeleteSession", 0);
    }
}

bool MxEndpoint::is_complete() {
    if (!ssl) { return complete; }
    vsim_set_node(node);
    bool c = matrixSslHandshakeIsComplete(ssl) == PS_TRUE;
    if (c && !complete) { complete = true; complete_event = (int) events.size(); }
    return c;
}
bool MxEndpoint::is_resumed() { if (!ssl) { return false; } vsim_set_node(node); return matrixSslIsResumedSession(ssl) == PS_TRUE; }
uint32_t MxEndpoint::negotiated_version() { if (!ssl) { return 0; } vsim_set_node(node); return (uint32_t) matrixSslGetNegotiatedVersion(ssl); }
uint32_t MxEndpoint::negotiated_suite() {
    if (!ssl) { return 0; }
    vsim_set_node(node);
    psCipher16_t c = 0;
    if (matrixSslGetNegotiatedCiphersuite(ssl, &c) < 0) { return 0; }
    return c;
}
int MxEndpoint::hs_state() { return vsim_peek_hs_state((const struct ssl *) ssl); }
uint32_t MxEndpoint::lib_flags() { return vsim_peek_flags((const struct ssl *) ssl); }

// Interpret a return code of ReceivedData / ProcessedData, looping as the integration guide prescribes.
int MxEndpoint::handle_rc(int rc, unsigned char *pt, uint32_t ptlen) {
    for (int guard = 0; guard < 10000; guard++) {
        switch (rc) {
        case MATRIXSSL_REQUEST_SEND: wants_send = true; return rc;
        case MATRIXSSL_REQUEST_RECV: return rc;
        case PS_SUCCESS: return rc;
        case MATRIXSSL_HANDSHAKE_COMPLETE:
            if (!complete) { complete = true; complete_event = (int) events.size(); }
            return rc;
        case MATRIXSSL_APP_DATA:
        case MATRIXSSL_APP_DATA_COMPRESSED: {
            delivered.push_back(Bytes(pt, pt + ptlen));
            bool c = matrixSslHandshakeIsComplete(ssl) == PS_TRUE;
            delivered_complete.push_back(c ? 1 : 0);
            if (c && !complete) { complete = true; complete_event = (int) events.size(); }
            log("APP_DATA", (int) ptlen, ptlen, hash_bytes(pt, ptlen));
            if (on_api) { on_api(*this, "app_data"); }
            rc = matrixSslProcessedData(ssl, &pt, &ptlen);
            log("ProcessedData", rc, ptlen);
            if (on_api) { on_api(*this, "ProcessedData"); }
            continue;
        }
        case MATRIXSSL_RECEIVED_ALERT: {
            int level = ptlen >= 2 ? pt[0] : -1, desc = ptlen >= 2 ? pt[1] : -1;
            alerts_in.push_back({ level, desc });
            log("ALERT", desc, (uint32_t) level);
            if (level == SSL_ALERT_LEVEL_FATAL) { got_fatal_alert = true; }
            if (desc == SSL_ALERT_CLOSE_NOTIFY) { got_close_notify = true; }
            if (on_api) { on_api(*this, "alert"); }
            rc = matrixSslProcessedData(ssl, &pt, &ptlen);
            log("ProcessedData", rc, ptlen);
            if (on_api) { on_api(*this, "ProcessedData"); }
            continue;
        }
        case MATRIXSSL_REQUEST_CLOSE: request_close = true; return rc;
        default:
            if (rc < 0) { if (!got_error) { got_error = true; first_error = rc; if (!(got_fatal_alert || got_close_notify || request_close)) { first_error_alive = rc; } } return rc; }
            return rc;
        }
    }
    return rc;
}

int MxEndpoint::feed(const unsigned char *p, size_t n) {
    if (!ssl) { return PS_FAILURE; }
    vsim_set_node(node);
    if (keep_log) { in_log.insert(in_log.end(), p, p + n); }
    int last = 0;
    size_t off = 0;
    do {
        unsigned char *buf = nullptr;
        int32 room = matrixSslGetReadbuf(ssl, &buf);
        if (room <= 0 || !buf) { log("GetReadbuf", room); if (!got_error) { got_error = true; first_error = room ? room : PS_FAILURE; if (!(got_fatal_alert || got_close_notify || request_close)) { first_error_alive = room ? room : PS_FAILURE; } } return room ? room : PS_FAILURE; }
        size_t take = n - off < (size_t) room ? n - off : (size_t) room;
        if (cfg.dtls && take < n - off) {
            // a datagram must be handed over whole: ask for a buffer of the right size
            room = matrixSslGetReadbufOfSize(ssl, (int32) (n - off), &buf);
            if (room < (int32) (n - off) || !buf) { log("GetReadbufOfSize", room); return PS_FAILURE; }
            take = n - off;
        }
        if (take) { memcpy(buf, p + off, take); }
        off += take;
        unsigned char *pt = nullptr; uint32 ptlen = 0;
        int rc = matrixSslReceivedData(ssl, (uint32) take, &pt, &ptlen);
        log("ReceivedData", rc, (uint32_t) take);
        if (on_api) { on_api(*this, "ReceivedData"); }
        last = handle_rc(rc, pt, ptlen);
        if (last < 0) { return last; }
    } while (off < n);
    return last;
}

size_t MxEndpoint::pending_out() {
    if (!ssl) { return 0; }
    vsim_set_node(node);
    unsigned char *buf = nullptr;
    int32 n = cfg.dtls ? vsim_peek_outlen((const struct ssl *) ssl) : matrixSslGetOutdata(ssl, &buf);
    return n > 0 ? (size_t) n : 0;
}

Bytes MxEndpoint::pull(size_t max) {
    Bytes out;
    if (!ssl) { return out; }
    vsim_set_node(node);
    unsigned char *buf = nullptr;
    int32 n = cfg.dtls ? matrixDtlsGetOutdata(ssl, &buf) : matrixSslGetOutdata(ssl, &buf);
    if (n <= 0 || !buf) { if (n < 0) { log("GetOutdata", n); if (!got_error) { got_error = true; first_error = n; if (!(got_fatal_alert || got_close_notify || request_close)) { first_error_alive = n; } } } wants_send = false; return out; }
    size_t take = (size_t) n < max ? (size_t) n : max;
    if (cfg.dtls) { take = (size_t) n; }
    out.assign(buf, buf + take);
    if (keep_log) { out_log.insert(out_log.end(), out.begin(), out.end()); if (barriers.empty() || barriers.back() != in_log.size()) { barriers.push_back(in_log.size()); } }
    int rc = cfg.dtls ? matrixDtlsSentData(ssl, (uint32) take) : matrixSslSentData(ssl, (uint32) take);
    log("SentData", rc, (uint32_t) take, hash_bytes(out.data(), out.size()));
    if (rc == MATRIXSSL_REQUEST_CLOSE) { request_close = true; }
    else if (rc == MATRIXSSL_HANDSHAKE_COMPLETE) { if (!complete) { complete = true; complete_event = (int) events.size(); complete_pending = (long) n - (long) take; } }
    else if (rc < 0) { if (!got_error) { got_error = true; first_error = rc; if (!(got_fatal_alert || got_close_notify || request_close)) { first_error_alive = rc; } } }
    if (rc != MATRIXSSL_REQUEST_SEND && take == (size_t) n) { wants_send = false; }
    if (on_api) { on_api(*this, "SentData"); }
    return out;
}

int MxEndpoint::dtls_timer() {
    // application resend timer: call GetOutdata again; with an empty out buffer the library rebuilds the last flight
    if (!ssl) { return 0; }
    vsim_set_node(node);
    unsigned char *buf = nullptr;
    int32 n = matrixDtlsGetOutdata(ssl, &buf);
    log("DtlsTimerGetOutdata", n);
    if (n < 0) { if (!got_error) { got_error = true; first_error = n; if (!(got_fatal_alert || got_close_notify || request_close)) { first_error_alive = n; } } }
    if (on_api) { on_api(*this, "timer"); }
    return n;
}

int MxEndpoint::app_send(const unsigned char *p, size_t n, bool use_writebuf) {
    if (!ssl) { return PS_FAILURE; }
    vsim_set_node(node);
    if (keep_log) { actions.push_back({ in_log.size(), 0, Bytes(p, p + n), use_writebuf }); }
    int rc;
    if (use_writebuf || n == 0) {   // len 0: only the writebuf path can express an empty record
        size_t off = 0; rc = 0;
        do {
            unsigned char *buf = nullptr;
            int32 room = matrixSslGetWritebuf(ssl, &buf, (uint32) (n - off));
            log("GetWritebuf", room, (uint32_t) (n - off));
            if (room <= 0) { rc = room ? room : PS_FAILURE; break; }
            size_t take = n - off < (size_t) room ? n - off : (size_t) room;
            if (take) { memcpy(buf, p + off, take); }
            rc = matrixSslEncodeWritebuf(ssl, (uint32) take);
            log("EncodeWritebuf", rc, (uint32_t) take);
            if (rc < 0) { break; }
            off += take;
        } while (off < n);
    } else {
        Bytes tmp(p, p + n);
        rc = matrixSslEncodeToOutdata(ssl, tmp.data(), (uint32) n);
        log("EncodeToOutdata", rc, (uint32_t) n);
    }
    if (rc >= 0) { wants_send = true; }
    if (on_api) { on_api(*this, "app_send"); }
    return rc;
}

int MxEndpoint::app_send_userbuf(const unsigned char *p, size_t n, Bytes *wire) {
    if (!ssl) { return PS_FAILURE; }
    vsim_set_node(node);
    Bytes pt(p, p + n); Bytes ct(n + 2048, 0xa5); uint32 ctLen = (uint32) ct.size();
    int32 rc = matrixSslEncodeToUserBuf(ssl, pt.data(), (uint32) n, ct.data(), &ctLen);
    log("EncodeToUserBuf", rc, (uint32_t) n);
    if (rc > 0 && wire) { ct.resize(ctLen <= ct.size() ? ctLen : ct.size()); *wire = ct; }
    if (on_api) { on_api(*this, "app_send"); }
    return rc;
}

int MxEndpoint::write_begin(size_t n) {
    if (!ssl) { return PS_FAILURE; }
    vsim_set_node(node);
    unsigned char *buf = nullptr;
    int32 room = matrixSslGetWritebuf(ssl, &buf, (uint32) n);
    log("GetWritebuf", room, (uint32_t) n);
    wb_ptr_ = room > 0 ? buf : nullptr; wb_room_ = room;
    wb_outbuf_ = vsim_peek_outbuf((const struct ssl *) ssl); wb_outlen_ = vsim_peek_outlen((const struct ssl *) ssl);
    return room;
}

int MxEndpoint::write_commit(const unsigned char *p, size_t n) {
    if (!ssl || !wb_ptr_) { return PS_FAILURE; }
    // only while the reservation still describes the session's output buffer (nothing was appended or reallocated in between)
    if (wb_outbuf_ != vsim_peek_outbuf((const struct ssl *) ssl) || wb_outlen_ != vsim_peek_outlen((const struct ssl *) ssl)) { wb_ptr_ = nullptr; return PS_FAILURE; }
    vsim_set_node(node);
    size_t take = n < (size_t) wb_room_ ? n : (size_t) wb_room_;
    memcpy(wb_ptr_, p, take);
    int32 rc = matrixSslEncodeWritebuf(ssl, (uint32) take);
    log("EncodeWritebuf", rc, (uint32_t) take);
    wb_ptr_ = nullptr;
    if (rc >= 0) { wants_send = true; }
    if (on_api) { on_api(*this, "app_send"); }
    return rc;
}

int MxEndpoint::app_close() {
    if (!ssl) { return PS_FAILURE; }
    vsim_set_node(node);
    if (keep_log) { actions.push_back({ in_log.size(), 1, Bytes(), false }); }
    int rc = matrixSslEncodeClosureAlert(ssl);
    log("EncodeClosureAlert", rc);
    app_closed = true;
    if (rc >= 0) { wants_send = true; }
    if (on_api) { on_api(*this, "app_close"); }
    return rc;
}

int MxEndpoint::hello_request() {
    if (!ssl || !cfg.server) { return PS_FAILURE; }
    vsim_set_node(node);
    int rc = vsim_encode_hello_request(ssl);
    log("EncodeHelloRequest", rc);
    if (rc >= 0) { wants_send = true; }
    if (on_api) { on_api(*this, "hello_request"); }
    return rc;
}

// The harness's own lazily initialised statics, touched once on the controller thread before simulated threads start (C20)
void harness_prewarm() {
    (void) all_tls12_suites(); (void) all_tls13_suites();
    if (g_trace < 0) { g_trace = getenv("VSIM_TRACE") ? 1 : 0; }
}
