// C19 - an allocation (or entropy-read) failure at any point yields a clean error: no crash / UB / double free,
// nothing leaked once the application deletes its objects, and no handshake reported complete with a
// verification step skipped.  Exhaustive single-fault enumeration per scenario + seeded multi-fault sequences.
#include "driver.h"
#include "world.h"
#include "peek.h"
#include "keys.h"
#include <map>

enum { SC_LOAD_RSA = 0, SC_LOAD_EC_ALL, SC_NEW_SESSIONS, SC_TLS12_RSA, SC_TLS12_ECDSA_CAUTH, SC_TLS11_ECDHE_RSA, SC_TLS12_RESUME_ID, SC_TLS12_RESUME_TICKET,
       SC_TLS13_FULL, SC_TLS13_PSK_RESUME, SC_TLS13_CAUTH, SC_DTLS12_FRAG, SC_TLS12_PSK, SC_DATA_GROWTH, SC_TLS12_TICKET_REISSUE, SC_TLS13_HRR_SNI, SC_TLS12_EXT_LIST, SC_TLS13_EXT_LIST, SC_OCSP_REFRESH, SC_LOAD_PEM_BUNDLE,
       SC_NEG_UNKNOWN_CA_12, SC_NEG_UNKNOWN_CA_13, SC_NEG_BAD_SIG_12, SC_NEG_BAD_SIG_13, SC_NEG_FORGED_CERT_12, SC_NEG_FORGED_CERT_13, SC_NEG_FORGED_CERT_RSA_12, SC_N };
static const char *SC_NAME[] = { "load_rsa", "load_ec_all", "new_sessions", "tls12_rsa", "tls12_ecdsa_cauth", "tls11_ecdhe_rsa", "tls12_resume_id", "tls12_resume_ticket",
                                 "tls13_full", "tls13_psk_resume", "tls13_cauth", "dtls12_frag", "tls12_psk", "data_growth", "tls12_ticket_reissue", "tls13_hrr_sni", "tls12_ext_list", "tls13_ext_list", "ocsp_refresh", "load_pem_bundle",
                                 "neg_unknown_ca_12", "neg_unknown_ca_13", "neg_bad_sig_12", "neg_bad_sig_13", "neg_forged_cert_12", "neg_forged_cert_13", "neg_forged_cert_rsa_12" };
static bool sc_negative(int s) { return s >= SC_NEG_UNKNOWN_CA_12; }

enum { F_ALLOC = 0, F_ENT_HARD = 1, F_ENT_SHORT = 2, F_ENT_EINTR = 3 };

struct ScOutcome {
    bool verifier_completed = false;    // negative scenarios: the authenticating side reported completion
    bool completed = false; bool data_ok = false;
    int first_error = 0; uint64_t allocs = 0, draws = 0;
    Fingerprint fp;
};

static PairCfg sc_cfg(int s) {
    PairCfg pc;
    switch (s) {
    case SC_TLS12_RSA: pc.version = v_tls_1_2; pc.suites = { TLS_RSA_WITH_AES_128_CBC_SHA256 }; pc.server_identity = KK_RSA2048; break;
    case SC_TLS12_ECDSA_CAUTH: pc.version = v_tls_1_2; pc.suites = { TLS_ECDHE_ECDSA_WITH_AES_128_GCM_SHA256 }; pc.server_identity = KK_EC256; pc.client_identity = KK_EC256; pc.client_auth = true; break;
    case SC_TLS11_ECDHE_RSA: pc.version = v_tls_1_1; pc.suites = { TLS_ECDHE_RSA_WITH_AES_128_CBC_SHA }; pc.server_identity = KK_RSA2048; break;
    case SC_TLS12_RESUME_ID: pc.version = v_tls_1_2; pc.suites = { TLS_ECDHE_ECDSA_WITH_AES_128_CBC_SHA }; pc.server_identity = KK_EC256; break;
    case SC_TLS12_TICKET_REISSUE: pc.version = v_tls_1_2; pc.suites = { TLS_ECDHE_RSA_WITH_AES_128_GCM_SHA256 }; pc.server_identity = KK_RSA2048; pc.tickets = true; break;
    case SC_TLS12_RESUME_TICKET: pc.version = v_tls_1_2; pc.suites = { TLS_RSA_WITH_AES_128_GCM_SHA256 }; pc.server_identity = KK_RSA2048; pc.tickets = true; break;
    case SC_TLS13_FULL: pc.version = v_tls_1_3; pc.suites = { TLS_AES_128_GCM_SHA256 }; pc.server_identity = KK_EC256; pc.tickets = true; break;
    case SC_TLS13_PSK_RESUME: pc.version = v_tls_1_3; pc.suites = { TLS_CHACHA20_POLY1305_SHA256 }; pc.server_identity = KK_EC256; pc.tickets = true; break;
    case SC_TLS13_CAUTH: pc.version = v_tls_1_3; pc.suites = { TLS_AES_256_GCM_SHA384 }; pc.server_identity = KK_RSA2048; pc.client_identity = KK_EC256; pc.client_auth = true; break;
    case SC_TLS13_HRR_SNI: pc.version = v_tls_1_3; pc.suites = { TLS_AES_128_GCM_SHA256 }; pc.server_identity = KK_EC256; pc.expected_name = "localhost"; pc.send_sni = true; pc.groups_c = { 23, 24 }; pc.key_shares = 1; pc.groups_s = { 24 }; break;   // server_name parsed twice (HelloRetryRequest)
    case SC_TLS12_EXT_LIST: pc.version = v_tls_1_2; pc.suites = { TLS_ECDHE_RSA_WITH_AES_128_GCM_SHA256 }; pc.server_identity = KK_RSA2048; pc.expected_name = "localhost"; pc.send_sni = 3; break;   // the client application passes a three-entry hello extension list (copied node by node)
    case SC_TLS13_EXT_LIST: pc.version = v_tls_1_3; pc.suites = { TLS_AES_128_GCM_SHA256 }; pc.server_identity = KK_EC256; pc.expected_name = "localhost"; pc.send_sni = 2; break;
    case SC_DTLS12_FRAG: pc.version = v_dtls_1_2; pc.suites = { TLS_ECDHE_ECDSA_WITH_AES_128_GCM_SHA256 }; pc.server_identity = KK_EC256; break;
    case SC_TLS12_PSK: pc.version = v_tls_1_2; pc.suites = { TLS_PSK_WITH_AES_128_CBC_SHA256 }; pc.server_identity = KK_NONE; pc.psk = true; break;
    case SC_DATA_GROWTH: pc.version = v_tls_1_2; pc.suites = { TLS_ECDHE_ECDSA_WITH_AES_128_GCM_SHA256 }; pc.server_identity = KK_EC256; break;
    case SC_NEG_UNKNOWN_CA_12: pc.version = v_tls_1_2; pc.suites = { TLS_ECDHE_ECDSA_WITH_AES_128_CBC_SHA256 }; pc.server_identity = KK_EC256; pc.client_trusts_server = false; pc.cb_c = CB_NONE; break;
    case SC_NEG_UNKNOWN_CA_13: pc.version = v_tls_1_3; pc.suites = { TLS_AES_128_GCM_SHA256 }; pc.server_identity = KK_EC256; pc.client_trusts_server = false; pc.cb_c = CB_STRICT; break;
    case SC_NEG_BAD_SIG_12: pc.version = v_tls_1_2; pc.suites = { TLS_ECDHE_ECDSA_WITH_AES_128_GCM_SHA256 }; pc.server_identity = KK_EC256; pc.cb_c = CB_STRICT; break;
    case SC_NEG_FORGED_CERT_12: pc.version = v_tls_1_2; pc.suites = { TLS_ECDHE_ECDSA_WITH_AES_128_GCM_SHA256 }; pc.server_identity = KK_EC256; pc.cb_c = CB_STRICT; pc.forge_server_cert = true; break;
    case SC_NEG_FORGED_CERT_13: pc.version = v_tls_1_3; pc.suites = { TLS_AES_128_GCM_SHA256 }; pc.server_identity = KK_EC256; pc.cb_c = CB_STRICT; pc.forge_server_cert = true; break;
    case SC_NEG_FORGED_CERT_RSA_12: pc.version = v_tls_1_2; pc.suites = { TLS_RSA_WITH_AES_128_CBC_SHA }; pc.server_identity = KK_RSA2048; pc.cb_c = CB_STRICT; pc.forge_server_cert = true; break;
    case SC_NEG_BAD_SIG_13: pc.version = v_tls_1_3; pc.suites = { TLS_AES_128_GCM_SHA256 }; pc.server_identity = KK_EC256; pc.cb_c = CB_STRICT; break;
    default: pc.version = v_tls_1_2; pc.suites = { TLS_RSA_WITH_AES_128_CBC_SHA }; pc.server_identity = KK_RSA2048; break;
    }
    return pc;
}

// arm the fault described by the plan; counters restart here
static void arm_fault(const Plan &p) {
    vsim_alloc_arm(); vsim_entropy_arm();
    int kind = (int) p.get("fault", F_ALLOC);
    for (auto &op : p.ops) {
        if (op.k != "fail") { continue; }
        if (kind == F_ALLOC) { if (op.b > 1) { vsim_alloc_fail_from((uint64_t) op.a, (uint64_t) op.b); } else { vsim_alloc_fail_index((uint64_t) op.a); } }
        else { vsim_entropy_fault_at(op.a, kind == F_ENT_HARD ? VSIM_ENT_HARDFAIL : kind == F_ENT_SHORT ? VSIM_ENT_SHORT : VSIM_ENT_EINTR, kind == F_ENT_EINTR ? (int) (op.b ? op.b : 3) : 1); }
    }
}
static void disarm_fault() { vsim_alloc_fail_clear(); vsim_entropy_fault_at(-1, 0, 0); }

static ScOutcome run_scenario(const Plan &p, bool count_only) {
    ScOutcome o;
    int s = (int) p.get("sc");
    vsim_alloc_verbose(1);
    if (s == SC_LOAD_RSA || s == SC_LOAD_EC_ALL) {
        if (!count_only) { arm_fault(p); } else { vsim_alloc_arm(); vsim_entropy_arm(); }
        KeySpec ks;
        if (s == SC_LOAD_RSA) { ks.identity = KK_RSA2048; ks.ca_mask = 1u << KK_RSA2048; }
        else { ks.identity = KK_EC256; ks.ca_mask = (1u << KK_EC256) | (1u << KK_EC384) | (1u << KK_RSA2048) | (1u << KK_ED25519); ks.psk = true; ks.ticket_keys = true; ks.tls13_psk = true; }
        int rc = 0; vsim_set_node(NODE_SERVER);
        sslKeys_t *k = load_keys(ks, &rc);
        o.first_error = rc; o.completed = k != nullptr;
        o.allocs = vsim_alloc_count(); o.draws = vsim_entropy_draws();
        disarm_fault();
        if (k) { matrixSslDeleteKeys(k); }
        o.fp.add((uint64_t) (int64_t) rc);
        return o;
    }
    if (s == SC_LOAD_PEM_BUNDLE) {
        // identity given as a PEM bundle (leaf + CA certificate in one buffer) with a PEM key: the multi-certificate PEM loop of psX509ParseCertData
        // and its callers' clean-up when one member fails to parse
        if (!count_only) { arm_fault(p); } else { vsim_alloc_arm(); vsim_entropy_arm(); }
        const unsigned char *cb = nullptr, *kb = nullptr; size_t cn = 0, kn = 0; vsim_pem_bundle(&cb, &cn, &kb, &kn);
        vsim_set_node(NODE_SERVER);
        sslKeys_t *k = nullptr; int rc = matrixSslNewKeys(&k, nullptr);
        if (rc >= 0) { rc = matrixSslLoadRsaKeysMem(k, cb, (int32) cn, kb, (int32) kn, cb, (int32) cn); }
        o.first_error = rc; o.completed = rc >= 0;
        o.allocs = vsim_alloc_count(); o.draws = vsim_entropy_draws();
        disarm_fault();
        if (k) { matrixSslDeleteKeys(k); }
        o.fp.add((uint64_t) (int64_t) rc);
        return o;
    }
    if (s == SC_OCSP_REFRESH) {
        // a server refreshes the stapled OCSP response on its live key set (periodic job); the refresh may fail, the application retries, later deletes the keys
        KeySpec ks; ks.identity = KK_EC256; ks.ca_mask = 1u << KK_EC256; ks.ocsp = 1;
        int rc = 0; vsim_set_node(NODE_SERVER);
        sslKeys_t *k = load_keys(ks, &rc);
        if (!k) { o.first_error = rc; return o; }
        if (!count_only) { arm_fault(p); } else { vsim_alloc_arm(); vsim_entropy_arm(); }
        const unsigned char *ob = nullptr; size_t on = 0; vsim_ocsp_blob(1, &ob, &on);
        int rc1 = matrixSslLoadOCSPResponse(k, ob, (psSize_t) on);
        int rc2 = matrixSslLoadOCSPResponse(k, ob, (psSize_t) on);
        vsim_ocsp_blob(0, &ob, &on);
        int rc3 = matrixSslLoadOCSPResponse(k, ob, (psSize_t) on);
        o.first_error = rc1 < 0 ? rc1 : rc2 < 0 ? rc2 : rc3; o.completed = rc1 >= 0 && rc2 >= 0 && rc3 >= 0;
        o.allocs = vsim_alloc_count(); o.draws = vsim_entropy_draws();
        disarm_fault();
        {
            // whatever the refreshes left behind is then used: a client asks for the stapled response
            PairCfg pc; pc.version = v_tls_1_2; pc.suites = { TLS_ECDHE_ECDSA_WITH_AES_128_GCM_SHA256 }; pc.server_identity = KK_EC256; pc.ocsp = 1;
            KeySpec cks; cks.identity = KK_NONE; cks.ca_mask = (1u << KK_EC256) | (1u << KK_EC384);
            vsim_set_node(NODE_CLIENT); sslKeys_t *ck = load_keys(cks);
            vsim_set_node(NODE_HARNESS); sslSessionId_t *sid = nullptr; matrixSslNewSessionId(&sid, nullptr);
            if (ck && sid) {
                TlsWorld w; w.adopt(k, ck, sid, pc);
                if (w.connect()) { w.handshake(); o.fp.add(w.cli->is_complete()); o.fp.add(w.srv->is_complete()); }
                w.close_sessions(); w.teardown();
            }
            vsim_set_node(NODE_HARNESS); if (sid) { matrixSslDeleteSessionId(sid); }
            vsim_set_node(NODE_CLIENT); if (ck) { matrixSslDeleteKeys(ck); }
            vsim_set_node(NODE_SERVER);
        }
        matrixSslDeleteKeys(k);
        o.fp.add((uint64_t) (int64_t) rc1); o.fp.add((uint64_t) (int64_t) rc2); o.fp.add((uint64_t) (int64_t) rc3);
        return o;
    }
    PairCfg pc = sc_cfg(s);
    if (s == SC_DTLS12_FRAG) { vsim_set_node(NODE_HARNESS); matrixDtlsSetPmtu(400); }
    TlsWorld w;
    bool resumed_sc = s == SC_TLS12_RESUME_ID || s == SC_TLS12_RESUME_TICKET || s == SC_TLS13_PSK_RESUME || s == SC_TLS12_TICKET_REISSUE;
    bool late_arm = resumed_sc || s == SC_DATA_GROWTH;
    if (!late_arm) { if (!count_only) { arm_fault(p); } else { vsim_alloc_arm(); vsim_entropy_arm(); } }
    bool ok = w.setup(pc);
    if (ok && resumed_sc) {
        ok = w.connect() && w.handshake();
        if (ok) { Bytes a = tagged_payload(0, 1, 30); w.cli->app_send(a.data(), a.size()); w.pump(); w.cli->app_close(); w.pump(); }
        w.close_sessions();
        if (ok && s == SC_TLS12_TICKET_REISSUE) {
            // the server's ticket key is rotated: the ticket the client holds no longer decrypts, the second handshake is a full one
            // that issues a replacement ticket over the one held in the session id object
            unsigned char name[16], sym[32], mac[32];
            vsim_set_node(NODE_SERVER);
            ticket_key_material(1, name, sym, mac); matrixSslDeleteSessionTicketKey(w.skeys, name);
            ticket_key_material(2, name, sym, mac); matrixSslLoadSessionTicketKeys(w.skeys, name, sym, 32, mac, 32);
        }
    }
    if (ok && s == SC_NEW_SESSIONS) {
        // session creation with every option that allocates: expected name, groups, sig algs, session id
        pc.expected_name = "localhost"; w.pc.expected_name = "localhost";
        w.pc.groups_c = { 23, 24 }; w.pc.key_shares = 2;
    }
    if (ok && s == SC_DATA_GROWTH) {
        ok = w.connect() && w.handshake();
        if (!ok) { o.first_error = -999; }
    }
    if (late_arm) { if (!count_only) { arm_fault(p); } else { vsim_alloc_arm(); vsim_entropy_arm(); } }
    if (ok && s != SC_DATA_GROWTH) {
        if (s == SC_NEG_BAD_SIG_12 || s == SC_NEG_BAD_SIG_13) { vsim_sign_corrupt(NODE_SERVER, 4); }
        ok = w.connect();
        if (ok && s != SC_NEW_SESSIONS) { w.handshake(); }
    }
    if (ok && w.cli && w.srv && w.cli->alive() && w.srv->alive()) {
        o.completed = w.cli->is_complete() && w.srv->is_complete();
        o.verifier_completed = w.cli->is_complete();
        if (pc.client_auth) { o.verifier_completed = o.verifier_completed || false; }
        if (o.completed) {
            size_t n1 = s == SC_DATA_GROWTH ? 40000 : 300;
            Bytes a = tagged_payload(0, 7, pc.dtls() ? 200 : n1), b = tagged_payload(1, 8, pc.dtls() ? 200 : n1 / 2);
            int r1 = w.cli->app_send(a.data(), a.size()), r2 = w.srv->app_send(b.data(), b.size());
            w.pump();
            Bytes da, db; for (auto &c : w.srv->delivered) { da.insert(da.end(), c.begin(), c.end()); } for (auto &c : w.cli->delivered) { db.insert(db.end(), c.begin(), c.end()); }
            o.data_ok = r1 >= 0 && r2 >= 0 && da == a && db == b;
            // delivered data must in any case be a prefix of what was sent (an allocation failure may cut the stream, never alter it)
            if (!(da.size() <= a.size() && std::equal(da.begin(), da.end(), a.begin())) || !(db.size() <= b.size() && std::equal(db.begin(), db.end(), b.begin()))) { o.first_error = -777; }
            w.cli->app_close(); w.pump();
        }
        o.first_error = o.first_error ? o.first_error : (w.cli->first_error ? w.cli->first_error : w.srv->first_error);
        o.fp.add(w.cli->fp.value()); o.fp.add(w.srv->fp.value());
    } else if (w.cli && w.srv) {
        o.first_error = w.cli->create_rc < 0 ? w.cli->create_rc : w.srv->create_rc;
    } else { o.first_error = w.setup_rc; }
    o.allocs = vsim_alloc_count(); o.draws = vsim_entropy_draws();
    disarm_fault();
    vsim_sign_corrupt(-1, 0);
    w.teardown();
    return o;
}

static std::vector<uint32_t> g_sites[SC_N];   // allocation site digest per allocation index of the fault-free scenario
static uint64_t g_counts[SC_N][2];   // allocations / entropy draws per scenario (measured fault-free when the plans are enumerated)

static void measure_scenarios() {
    static bool done = false;
    if (done) { return; }
    done = true;
    for (int s = 0; s < SC_N; s++) {
        Plan p; p.cfg["sc"] = s; p.seed = 190000 + (uint64_t) s;
        vsim_run_reset(p.seed); sim_global_open();
        std::vector<uint32_t> tr(400000, 0);
        vsim_alloc_site_trace(tr.data(), tr.size());
        ScOutcome o = run_scenario(p, true);
        vsim_alloc_site_trace(nullptr, 0);
        sim_global_close();
        g_counts[s][0] = o.allocs; g_counts[s][1] = o.draws;
        tr.resize(o.allocs < tr.size() ? (size_t) o.allocs : tr.size()); g_sites[s] = tr;
    }
}

static std::vector<Plan> c19_fixed(int tier) {
    measure_scenarios();
    std::vector<Plan> v;
    for (int s = 0; s < SC_N; s++) {
        uint64_t n = g_counts[s][0];
        // quick: every index of the small scenarios, every index up to 600 and then a stride for the long ones; thorough: every index
        std::map<uint32_t, int> seen;      // quick tier also takes the first four failures of every allocation SITE of the scenario, wherever they fall
        for (uint64_t k = 0; k < n; k++) {
            bool by_site = k < g_sites[s].size() && seen[g_sites[s][(size_t) k]]++ < 4;
            if (!tier && k >= 600 && (k % (n > 6000 ? 13 : 5)) != 0 && !by_site) { continue; }
            Plan p; p.seed = 190000 + (uint64_t) s; p.cfg["sc"] = s; p.cfg["fault"] = F_ALLOC; p.cfg["n"] = (int64_t) n;
            p.ops.push_back(Op("fail", (int64_t) k, 1));
            v.push_back(p);
        }
        // failing system calls: every entropy read of the scenario (thorough: all three kinds; quick: hard failure only)
        uint64_t nd = g_counts[s][1];
        for (int kind = F_ENT_HARD; kind <= (tier ? F_ENT_EINTR : F_ENT_HARD); kind++) {
            for (uint64_t k = 0; k < nd; k++) {
                Plan p; p.seed = 190000 + (uint64_t) s; p.cfg["sc"] = s; p.cfg["fault"] = kind; p.cfg["n"] = (int64_t) nd;
                p.ops.push_back(Op("fail", (int64_t) k, kind == F_ENT_EINTR ? 3 : 1));
                v.push_back(p);
            }
        }
    }
    return v;
}

// seeded multi-fault sequences
static Plan c19_gen(uint64_t seed, int tier, uint64_t index) {
    (void) tier; (void) index;
    measure_scenarios();
    Rng r(seed);
    Plan p;
    int s = (int) r.below(SC_N);
    p.cfg["sc"] = s; p.cfg["fault"] = F_ALLOC; p.cfg["n"] = (int64_t) g_counts[s][0];
    uint64_t n = g_counts[s][0] ? g_counts[s][0] : 1;
    int nf = 2 + (int) r.below(3);
    for (int i = 0; i < nf; i++) {
        if (r.chance(1, 3)) { p.ops.push_back(Op("fail", (int64_t) r.below(n), (int64_t) (2 + r.below(6)))); }    // burst
        else { p.ops.push_back(Op("fail", (int64_t) r.below(n), 1)); }
    }
    return p;
}

static RunResult c19_exec(const Plan &p) {
    RunResult res;
    int s = (int) p.get("sc");
    if (s < 0 || s >= SC_N) { res.harness_error = true; res.detail = "bad scenario"; return res; }
    // same seed for every plan of a scenario: the fault-free prefix of the run is identical to the measured one
    vsim_run_reset(190000 + (uint64_t) s);
    sim_global_open();
    vsim_alloc_mark();
    ScOutcome o = run_scenario(p, false);
    uint64_t fired = vsim_alloc_fired() + vsim_entropy_faults_fired();
    vsim_block_info_t site; bool have_site = vsim_alloc_last_fired(&site) != 0;
    std::string site_s = have_site ? std::string(site.file ? (strrchr(site.file, '/') ? strrchr(site.file, '/') + 1 : site.file) : "?") + ":" + (site.func ? site.func : "?") : "none";
    size_t live = vsim_alloc_live_blocks();
    std::string kindname = p.get("fault", 0) == F_ALLOC ? "alloc" : "entropy";
    if (live > 0) {
        vsim_block_info_t bi[8]; int n = vsim_alloc_live_list(bi, 8);
        char owner[128] = "?"; if (n) { vsim_block_owner(&bi[0], owner, sizeof owner); }
        std::string leaked = owner;
        std::string all; for (int i = 0; i < n; i++) { char ow[128]; vsim_block_owner(&bi[i], ow, sizeof ow); all += std::string(ow) + "/" + std::string(bi[i].func ? bi[i].func : "?") + ":" + std::to_string(bi[i].line) + "(" + std::to_string(bi[i].size) + "B,#" + std::to_string(bi[i].index) + ") "; }
        res.violate("leak_on_" + kindname + "_fail", leaked, std::string(SC_NAME[s]) + ": " + std::to_string(live) + " library block(s) still allocated after the application deleted everything; failed allocation at " + site_s + "; leaked from: " + all);
    }
    if (!res.violation && sc_negative(s) && o.verifier_completed) {
        res.violate("success_with_skipped_check", std::string(SC_NAME[s]) + "," + site_s, std::string(SC_NAME[s]) + ": the client reported the handshake complete although the server could not be authenticated (fault at " + site_s + ")");
    }
    if (!res.violation && o.first_error == -777) {
        res.violate("wrong_data_after_" + kindname + "_fail", std::string(SC_NAME[s]) + "," + site_s, "delivered application data is not a prefix of what was sent");
    }
    if (!sc_negative(s) && !fired && !o.completed && s != SC_NEW_SESSIONS && s > SC_LOAD_EC_ALL) {
        res.harness_error = true; res.detail = std::string("control: scenario ") + SC_NAME[s] + " did not complete without a fault firing (err " + std::to_string(o.first_error) + ")";
    }
    res.nontrivial = fired > 0;
    uint64_t kk = 0; for (auto &op : p.ops) { kk = mix64(kk, (uint64_t) op.a * 8 + (uint64_t) op.b); }
    res.fingerprint = mix64(mix64(o.fp.value(), kk), mix64((uint64_t) s * 4 + (uint64_t) p.get("fault"), fired));
    res.count(std::string("scenario.") + SC_NAME[s]);
    res.count(std::string("fault.") + kindname + "_fired", (int64_t) fired);
    if (fired) { res.count(o.completed ? "outcome.completed_despite_fault" : "outcome.clean_failure"); res.states.push_back(std::string(SC_NAME[s]) + "," + site_s); }
    sim_global_close();
    return res;
}

static ModuleRegistrar reg({ "C19", "fault", "fault_enumeration",
    "22 fixed scenarios (key loading RSA / EC+CA bundle+PSK+ticket keys+TLS 1.3 PSK / PEM identity bundle with PEM key; session creation with options; full TLS 1.1/1.2/1.3 handshakes RSA / ECDHE-RSA / ECDHE-ECDSA, client auth, PSK; id-, ticket- and TLS 1.3 PSK-resumed handshakes; "
    "DTLS 1.2 with fragmentation; data exchange with buffer growth; seven must-fail authentication scenarios: unknown CA, corrupted key-exchange / CertificateVerify signature, forged certificate). Each scenario's allocations and entropy reads are counted fault-free, then EVERY allocation index is failed once "
    "(thorough; quick: every index of short scenarios, the first 600, a stride, and the first four occurrences of every allocation site of the long ones) and every entropy read is failed (hard error; thorough also short read and EINTR burst); plus seeded multi-fault sequences (2-4 faults, bursts). "
    "non-trivial = the injected fault actually fired; distinct = distinct (scenario, outcome history, fired count)",
    c19_gen, c19_exec, 600, 6000, 150, 2400,
    { "core (allocator macros routed through the seam; psGetEntropy retry loops run for real)", "crypto", "matrixssl" },
    { "allocator front-end (fails the chosen call, forwards the rest to the sanitizer allocator)", "/dev/urandom reads", "transport", "applications", "clock" },
    { "only single faults are enumerated exhaustively; multi-fault sequences are sampled", "leaks are judged by the seam's live-block table after the application deleted sessions, keys and session ids" },
    "asan", c19_fixed, true });
