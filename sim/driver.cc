// vsim: seeded search over plans, crash-isolated workers, determinism gate, minimisation, evidence.
#include <dirent.h>
#include "driver.h"
#include "seams.h"
#include <algorithm>
#include <cerrno>
#include <chrono>
#include <csignal>
#include <cstdlib>
#include <fcntl.h>
#include <poll.h>
#include <sstream>
#include <sys/stat.h>
#include <sys/wait.h>
#include <unistd.h>

extern "C" __attribute__((used)) const char *__asan_default_options() {
    return "exitcode=77:detect_leaks=0:abort_on_error=0:allocator_may_return_null=1:detect_stack_use_after_return=0:handle_segv=1";
}
extern "C" __attribute__((used)) const char *__ubsan_default_options() { return "print_stacktrace=0:halt_on_error=0:exitcode=77:silence_unsigned_overflow=1"; }

// UBSan monitor interface: every report is recorded (kind, file, line) for the run in progress; the C08 oracle reads it.
extern "C" __attribute__((weak)) void __ubsan_get_current_report_data(const char **kind, const char **msg, const char **file, unsigned *line, unsigned *col, char **addr);
static std::vector<std::string> g_ubsan_reports;
extern "C" __attribute__((used)) void __ubsan_on_report(void) {
    const char *kind = nullptr, *msg = nullptr, *file = nullptr; unsigned line = 0, col = 0; char *addr = nullptr;
    if (!__ubsan_get_current_report_data) { return; }
    __ubsan_get_current_report_data(&kind, &msg, &file, &line, &col, &addr);
    std::string f = file ? file : "?";
    size_t sl = f.rfind('/'); if (sl != std::string::npos) { f = f.substr(sl + 1); }
    std::string r = std::string(kind ? kind : "?") + "@" + f + ":" + std::to_string(line);
    if (g_ubsan_reports.size() < 64) { g_ubsan_reports.push_back(r); }
}
std::vector<std::string> ubsan_take_reports() { std::vector<std::string> v; v.swap(g_ubsan_reports); return v; }
extern "C" __attribute__((used)) const char *__tsan_default_options() { return "exitcode=77:halt_on_error=1:report_signal_unsafe=0"; }

// per-run watchdog: a run that does not return within RUN_WATCHDOG_S seconds of real time is a hang; the handler prints the stack (so the
// looping function is named in the signature) and exits with a distinctive status
extern "C" void __sanitizer_print_stack_trace(void) __attribute__((weak));
static const unsigned RUN_WATCHDOG_S = 30;
static void on_watchdog(int) { static const char m[] = "VSIM-HANG: run exceeded the watchdog\n"; (void) !write(2, m, sizeof m - 1); if (__sanitizer_print_stack_trace) { __sanitizer_print_stack_trace(); } _exit(79); }
static void watchdog_arm(unsigned s) { signal(SIGALRM, on_watchdog); alarm(s); }

#if defined(VSIM_VARIANT_TSAN)
static const char *BUILD_VARIANT = "tsan";
#elif defined(VSIM_VARIANT_ASAN)
static const char *BUILD_VARIANT = "asan";
#else
static const char *BUILD_VARIANT = "plain";
#endif
static std::vector<PropModule> &registry() { static std::vector<PropModule> r; return r; }
void register_module(const PropModule &m) { registry().push_back(m); }
const PropModule *find_module(const std::string &id) {
    for (auto &m : registry()) { if (id == m.id) { return &m; } }
    return nullptr;
}

static std::string VERIF_DIR = "/verif";
static double now_s() { return std::chrono::duration<double>(std::chrono::steady_clock::now().time_since_epoch()).count(); }

// ---------------------------------------------------------------- result (de)serialisation
static std::string esc(const std::string &s) { std::string o; for (char c : s) { if (c == '\n') { o += "\\n"; } else if (c == '\\') { o += "\\\\"; } else { o += c; } } return o; }
static std::string unesc(const std::string &s) {
    std::string o;
    for (size_t i = 0; i < s.size(); i++) { if (s[i] == '\\' && i + 1 < s.size()) { i++; o += s[i] == 'n' ? '\n' : s[i]; } else { o += s[i]; } }
    return o;
}
static std::string ser_result(const RunResult &r) {
    std::ostringstream o;
    o << "violation " << (r.violation ? 1 : 0) << "\n";
    o << "cls " << esc(r.cls) << "\n" << "sig " << esc(r.sig) << "\n" << "detail " << esc(r.detail) << "\n";
    o << "fp " << u64hex(r.fingerprint) << "\n" << "nontrivial " << (r.nontrivial ? 1 : 0) << "\n" << "harness " << (r.harness_error ? 1 : 0) << "\n";
    o << "simms " << (long long) r.sim_ms << "\n";
    for (auto &kv : r.counters) { o << "c " << kv.first << " " << kv.second << "\n"; }
    for (auto &s : r.states) { o << "s " << esc(s) << "\n"; }
    o << "end\n";
    return o.str();
}
static bool de_result(const std::string &txt, RunResult &r) {
    std::istringstream in(txt); std::string line; bool end = false;
    while (std::getline(in, line)) {
        size_t sp = line.find(' ');
        std::string k = line.substr(0, sp), v = sp == std::string::npos ? "" : line.substr(sp + 1);
        if (k == "violation") { r.violation = v == "1"; }
        else if (k == "cls") { r.cls = unesc(v); }
        else if (k == "sig") { r.sig = unesc(v); }
        else if (k == "detail") { r.detail = unesc(v); }
        else if (k == "fp") { r.fingerprint = strtoull(v.c_str(), nullptr, 16); }
        else if (k == "nontrivial") { r.nontrivial = v == "1"; }
        else if (k == "harness") { r.harness_error = v == "1"; }
        else if (k == "simms") { r.sim_ms = atof(v.c_str()); }
        else if (k == "c") { size_t s2 = v.find(' '); r.counters[v.substr(0, s2)] = atoll(v.substr(s2 + 1).c_str()); }
        else if (k == "s") { r.states.push_back(unesc(v)); }
        else if (k == "end") { end = true; break; }
    }
    return end;
}

// ---------------------------------------------------------------- crash classification
static void classify_crash(const std::string &text, int status, std::string &kind, std::string &func) {
    kind = "signal"; func = "?";
    size_t p = text.find("ERROR: AddressSanitizer: ");
    if (text.find("VSIM-DEADLOCK") != std::string::npos) {
        kind = "deadlock"; func = "lock_cycle";
        return;
    } else if (text.find("VSIM-HANG") != std::string::npos) {
        kind = "hang";
    } else if (p != std::string::npos) {
        size_t e = text.find_first_of(" \n", p + 25);
        kind = "asan:" + text.substr(p + 25, e - (p + 25));
    } else if ((p = text.find("runtime error: ")) != std::string::npos) {
        size_t e = text.find('\n', p);
        std::string msg = text.substr(p + 15, e - (p + 15));
        // normalise numbers/addresses out of the UBSan message
        std::string norm;
        for (size_t i = 0; i < msg.size() && norm.size() < 60; i++) { char c = msg[i]; if (c >= '0' && c <= '9') { if (norm.empty() || norm.back() != '#') { norm += '#'; } } else { norm += c; } }
        kind = "ubsan:" + norm;
    } else if ((p = text.find("WARNING: ThreadSanitizer: ")) != std::string::npos) {
        size_t e = text.find_first_of("(\n", p + 26);
        kind = "tsan:" + text.substr(p + 26, e - (p + 26));
        while (!kind.empty() && kind.back() == ' ') { kind.pop_back(); }
    } else if (WIFSIGNALED(status)) {
        kind = "signal:" + std::to_string(WTERMSIG(status));
    } else if (WIFEXITED(status)) {
        kind = "exit:" + std::to_string(WEXITSTATUS(status));
    }
    if (kind.rfind("tsan:", 0) == 0) {
        // ThreadSanitizer: name the first /repo frame of each of the two access stacks ("    #N func /repo/file.c:line:col (...)")
        size_t w = text.find("WARNING: ThreadSanitizer");
        std::istringstream tin(text.substr(w == std::string::npos ? 0 : w)); std::string tl; std::vector<std::string> tops; bool in_stack = false, have = false;
        while (std::getline(tin, tl) && tops.size() < 2) {
            size_t h = tl.find("#");
            bool frame = h != std::string::npos && tl.find_first_not_of(' ') == h;
            if (!frame) { in_stack = false; if (tl.find(" of size ") != std::string::npos || tl.find("Previous ") != std::string::npos) { have = false; in_stack = true; } continue; }
            if (!in_stack || have) { continue; }
            size_t rp = tl.find(" /repo/");
            if (rp == std::string::npos) { continue; }
            size_t s0 = tl.find(' ', h); if (s0 == std::string::npos || s0 >= rp) { continue; }
            std::string fn = tl.substr(s0 + 1, rp - s0 - 1);
            tops.push_back(fn); have = true;
        }
        if (!tops.empty()) { std::sort(tops.begin(), tops.end()); func = tops[0]; if (tops.size() > 1 && tops[1] != tops[0]) { func += "+" + tops[1]; } return; }
    }
    // top frame inside the repository
    std::istringstream in(text); std::string line;
    while (std::getline(in, line)) {
        size_t h = line.find("#");
        size_t in_pos = line.find(" in ");
        if (h == std::string::npos || in_pos == std::string::npos) { continue; }
        if (line.find(kind == "hang" ? "/repo/matrixssl/" : "/repo/") == std::string::npos) { continue; }
        size_t s = in_pos + 4, e = line.find(' ', s);
        func = line.substr(s, e - s);
        break;
    }
    {   // C19: the allocation site whose failure was injected last (printed by the allocator seam)
        size_t a = text.rfind("VSIM-ALLOC-FAIL ");
        if (a != std::string::npos) { size_t e = text.find('\n', a); std::string site = text.substr(a + 16, e - (a + 16)); if (func != "?") { func = site + "->" + func; } else { func = site + "->?"; } }
    }
    if (func == "?") {
        size_t q = text.find("/repo/");
        if (q != std::string::npos) { size_t e = text.find_first_of(": \n", q); std::string path = text.substr(q, e - q); size_t sl = path.rfind('/'); func = path.substr(sl + 1); }
    }
}

static std::string tmp_dir() {
    std::string d = VERIF_DIR + "/build/tmp";
    mkdir((VERIF_DIR + "/build").c_str(), 0755); mkdir(d.c_str(), 0755);
    return d;
}

ChildOutcome run_in_child(const PropModule &m, const Plan &p, int timeout_s) {
    ChildOutcome out;
    int fds[2];
    if (pipe(fds) < 0) { return out; }
    std::string errpath = tmp_dir() + "/child." + std::to_string(getpid()) + ".err";
    fflush(stdout); fflush(stderr);
    pid_t pid = fork();
    if (pid == 0) {
        close(fds[0]);
        int efd = open(errpath.c_str(), O_WRONLY | O_CREAT | O_TRUNC, 0644);
        if (efd >= 0) { dup2(efd, 2); close(efd); }
        int nfd = open("/dev/null", O_WRONLY); if (nfd >= 0) { dup2(nfd, 1); close(nfd); }
        watchdog_arm((unsigned) timeout_s);
        RunResult r = m.exec(p);
        alarm(0);
        std::string s = ser_result(r);
        size_t off = 0; while (off < s.size()) { ssize_t w = write(fds[1], s.data() + off, s.size() - off); if (w <= 0) { break; } off += (size_t) w; }
        _exit(0);
    }
    close(fds[1]);
    std::string txt; char buf[4096]; ssize_t n;
    // read with a hard deadline enforced from outside (see run_batch): timeout_s + 45 s
    double t_end = now_s() + timeout_s + 45.0; bool killed = false;
    for (;;) {
        pollfd pfd = { fds[0], POLLIN, 0 };
        int pr = poll(&pfd, 1, 1000);
        if (pr > 0) { n = read(fds[0], buf, sizeof buf); if (n > 0) { txt.append(buf, (size_t) n); continue; } break; }
        if (now_s() > t_end && !killed) {
            FILE *ef = fopen(errpath.c_str(), "a"); if (ef) { fprintf(ef, "\nVSIM-HANG hard timeout (killed by the driver)\n"); fclose(ef); }
            kill(pid, SIGKILL); killed = true;
        }
    }
    close(fds[0]);
    int status = 0; waitpid(pid, &status, 0);
    out.status = status;
    if (WIFEXITED(status) && WEXITSTATUS(status) == 0 && de_result(txt, out.res)) { out.ok = true; }
    else {
        read_file(errpath, out.crash_text);
        classify_crash(out.crash_text, status, out.crash_kind, out.crash_func);
        if (out.crash_kind == "hang") { out.timeout = true; }
    }
    unlink(errpath.c_str());
    return out;
}

// a uniform view: outcome of executing a plan = (class, signature) or clean
struct Verdict { bool bad = false; bool harness = false; std::string cls, sig, detail; uint64_t fp = 0; };
static Verdict verdict_of(const ChildOutcome &o) {
    Verdict v;
    if (o.ok) {
        v.bad = o.res.violation; v.cls = o.res.cls; v.sig = o.res.sig; v.detail = o.res.detail; v.fp = o.res.fingerprint; v.harness = o.res.harness_error;
    } else {
        v.bad = true; v.cls = "crash:" + o.crash_kind; v.sig = v.cls + "|" + o.crash_func;
        std::string t = o.crash_text; if (t.size() > 3000) { t.resize(3000); }
        v.detail = t;
    }
    return v;
}

// ---------------------------------------------------------------- known findings
struct Known { std::string prop, cls, key, text; bool seen = false; };
static std::vector<Known> load_known() {
    std::vector<Known> v; std::string txt;
    if (!read_file(VERIF_DIR + "/findings/known_findings.txt", txt)) { return v; }
    std::istringstream in(txt); std::string line;
    while (std::getline(in, line)) {
        if (line.rfind("known:", 0) != 0) { continue; }
        Known k; k.text = line;
        auto field = [&](const std::string &name) {
            size_t p = line.find(name + "=");
            if (p == std::string::npos) { return std::string(); }
            size_t s = p + name.size() + 1, e = line.find(' ', s);
            return line.substr(s, e == std::string::npos ? std::string::npos : e - s);
        };
        k.prop = field("property"); k.cls = field("class"); k.key = field("key");
        v.push_back(k);
    }
    return v;
}
static Known *match_known(std::vector<Known> &ks, const std::string &prop, const std::string &sig) {
    for (auto &k : ks) {
        std::string s = k.cls + "|" + k.key;
        if (s == sig && (k.prop == prop || k.cls.rfind("crash:", 0) == 0)) { return &k; }
    }
    return nullptr;
}

// ---------------------------------------------------------------- minimisation (plan-level ddmin)
static int g_min_execs = 0;
static bool still_fails(const PropModule &m, const Plan &p, const std::string &cls) {
    g_min_execs++;
    ChildOutcome o = run_in_child(m, p, cls == "crash:hang" ? 5 : 60);   // a run that loops forever need not be waited for at full length again
    Verdict v = verdict_of(o);
    return v.bad && v.cls == cls;
}
static Plan minimise(const PropModule &m, Plan p, const std::string &cls, double budget_s) {
    double t0 = now_s(); g_min_execs = 0;
    auto out_of_budget = [&]() { return now_s() - t0 > budget_s || g_min_execs > 300; };
    // 1. drop ops (chunks, then singles, to a fixpoint)
    for (size_t chunk = p.ops.size() / 2 > 0 ? p.ops.size() / 2 : 1; !p.ops.empty() && !out_of_budget();) {
        bool removed = false;
        for (size_t i = 0; i + chunk <= p.ops.size() && !out_of_budget();) {
            Plan q = p; q.ops.erase(q.ops.begin() + (long) i, q.ops.begin() + (long) (i + chunk));
            if (still_fails(m, q, cls)) { p = q; removed = true; } else { i += chunk; }
        }
        if (chunk == 1) { if (!removed) { break; } } else { chunk /= 2; }
    }
    // 2. shrink numeric op arguments toward 0
    for (size_t i = 0; i < p.ops.size() && !out_of_budget(); i++) {
        int64_t *fields[4] = { &p.ops[i].a, &p.ops[i].b, &p.ops[i].c, &p.ops[i].d };
        for (int f = 0; f < 4 && !out_of_budget(); f++) {
            for (int64_t cand : { (int64_t) 0, (int64_t) 1, *fields[f] / 2 }) {
                if (*fields[f] == cand || (cand > *fields[f] && *fields[f] >= 0)) { continue; }
                Plan q = p; int64_t *qf[4] = { &q.ops[i].a, &q.ops[i].b, &q.ops[i].c, &q.ops[i].d };
                *qf[f] = cand;
                if (still_fails(m, q, cls)) { p = q; fields[0] = &p.ops[i].a; fields[1] = &p.ops[i].b; fields[2] = &p.ops[i].c; fields[3] = &p.ops[i].d; break; }
            }
        }
    }
    // 3. simplify cfg: drop keys (fall back to defaults).  A configuration key changes WHAT is simulated, not how much of it: a plan without it
    //    must still show the very same signature, not merely some violation of the same class (a defaulted configuration can be a different story)
    std::string sig0;
    { g_min_execs++; ChildOutcome o = run_in_child(m, p, cls == "crash:hang" ? 5 : 60); Verdict v = verdict_of(o); if (v.bad && v.cls == cls) { sig0 = v.sig; } }
    std::vector<std::string> keys;
    for (auto &kv : p.cfg) { keys.push_back(kv.first); }
    for (auto &k : keys) {
        if (out_of_budget() || sig0.empty()) { break; }
        if (k == "ver" || k == "suite") { continue; }   // keep what the signature context is derived from
        Plan q = p; q.cfg.erase(k);
        g_min_execs++;
        ChildOutcome o = run_in_child(m, q, cls == "crash:hang" ? 5 : 60); Verdict v = verdict_of(o);
        if (v.bad && v.cls == cls && v.sig == sig0) { p = q; }
    }
    return p;
}

// ---------------------------------------------------------------- worker protocol
//  parent -> nothing; worker writes blocks to its pipe:
//   "B <index>\n"                      about to run index
//   "R <index> <nbytes>\n<result>"     finished
//   "P <index> <nbytes>\n<plan json>"  plan text (for samples and violations)
//   "D <index> <0|1>\n"                determinism re-run result (1 = equal)
struct WorkerState { pid_t pid = -1; int fd = -1; std::string buf; int64_t cur = -1; int id = 0; std::string errpath; bool done = false; uint64_t next_start = 0; double cur_since = 0; bool hard_killed = false; };

struct BatchCfg { const PropModule *m; int tier; uint64_t seed; uint64_t nruns; double deadline; int workers; uint64_t det_every; size_t nfixed; };

static Plan plan_for_index(const BatchCfg &b, const std::vector<Plan> &fixed, uint64_t i) {
    if (i < fixed.size()) { return fixed[i]; }
    uint64_t s = derive(b.seed, std::string(b.m->id) + (b.tier ? ":thorough" : ":quick"), i);
    Plan p = b.m->gen(s, b.tier, i - fixed.size());
    p.prop = b.m->id; p.seed = s;
    return p;
}

static void wr(int fd, const std::string &s) { size_t off = 0; while (off < s.size()) { ssize_t w = write(fd, s.data() + off, s.size() - off); if (w <= 0) { if (errno == EINTR) { continue; } break; } off += (size_t) w; } }

static void worker_main(const BatchCfg &b, const std::vector<Plan> &fixed, int wid, uint64_t start, int fd) {
    for (uint64_t i = start; i < b.nruns; i += (uint64_t) b.workers) {
        if (now_s() > b.deadline && i >= fixed.size()) { break; }
        Plan p = plan_for_index(b, fixed, i);
        wr(fd, "B " + std::to_string(i) + "\n");
        watchdog_arm(RUN_WATCHDOG_S);
        RunResult r = b.m->exec(p);
        alarm(0);
        std::string rs = ser_result(r);
        wr(fd, "R " + std::to_string(i) + " " + std::to_string(rs.size()) + "\n" + rs);
        bool want_plan = r.violation || i < 4 + fixed.size() || (i % 997) == 0;
        if (want_plan) { std::string pj = p.json(); wr(fd, "P " + std::to_string(i) + " " + std::to_string(pj.size()) + "\n" + pj); }
        if (b.det_every && (i % b.det_every) == 0 && !r.violation) {
            watchdog_arm(RUN_WATCHDOG_S);
            RunResult r2 = b.m->exec(p);
            alarm(0);
            wr(fd, "D " + std::to_string(i) + " " + (r2.fingerprint == r.fingerprint && r2.violation == r.violation ? "1" : "0") + "\n");
        }
    }
    wr(fd, "E\n");
    (void) wid;
}

static void spawn_worker(WorkerState &w, const BatchCfg &b, const std::vector<Plan> &fixed, uint64_t start) {
    w.hard_killed = false; w.cur = -1; w.cur_since = now_s();
    int fds[2];
    if (pipe(fds) < 0) { perror("pipe"); exit(2); }
    w.errpath = tmp_dir() + "/worker." + std::to_string(getpid()) + "." + std::to_string(w.id) + ".err";
    fflush(stdout); fflush(stderr);
    pid_t pid = fork();
    if (pid == 0) {
        close(fds[0]);
        int efd = open(w.errpath.c_str(), O_WRONLY | O_CREAT | O_TRUNC, 0644);
        if (efd >= 0) { dup2(efd, 2); close(efd); }
        int nfd = open("/dev/null", O_WRONLY); if (nfd >= 0) { dup2(nfd, 1); close(nfd); }
        worker_main(b, fixed, w.id, start, fds[1]);
        _exit(0);
    }
    close(fds[1]);
    w.pid = pid; w.fd = fds[0]; w.buf.clear(); w.cur = -1; w.done = false;
}

struct Candidate { uint64_t index; Plan plan; Verdict v; bool from_crash = false; };

struct BatchStats {
    uint64_t evaluations = 0, violations_raw = 0, crashes = 0, nontrivial = 0, det_checked = 0, det_mismatch = 0, harness_errors = 0;
    std::set<uint64_t> distinct_nontrivial, distinct_all;
    std::map<std::string, int64_t> counters;
    std::set<std::string> states;
    double sim_ms = 0;
    std::vector<std::string> sample_plans;
    std::map<uint64_t, std::string> plans;     // index -> plan json (violations + samples)
    std::vector<std::string> harness_details;
    std::map<uint64_t, uint64_t> fp_by_index;
};

static void absorb(BatchStats &st, const RunResult &r) {
    st.evaluations++;
    st.distinct_all.insert(r.fingerprint);
    if (r.nontrivial) { st.nontrivial++; st.distinct_nontrivial.insert(r.fingerprint); }
    for (auto &kv : r.counters) { st.counters[kv.first] += kv.second; }
    for (auto &s : r.states) { if (st.states.size() < 20000) { st.states.insert(s); } }
    st.sim_ms += r.sim_ms;
    if (r.harness_error) { st.harness_errors++; if (st.harness_details.size() < 5) { st.harness_details.push_back(r.detail); } }
}

static void run_batch(const BatchCfg &b, const std::vector<Plan> &fixed, BatchStats &st, std::vector<Candidate> &cands) {
    std::vector<WorkerState> ws((size_t) b.workers);
    // development aid (seed sweeps of the seeded part only): VSIM_SKIP_FIXED=1 starts behind the fixed plans
    uint64_t first_index = getenv("VSIM_SKIP_FIXED") ? (uint64_t) fixed.size() : 0;
    for (int i = 0; i < b.workers; i++) { ws[(size_t) i].id = i; spawn_worker(ws[(size_t) i], b, fixed, first_index + (uint64_t) i); }
    std::map<uint64_t, RunResult> pending_viol;
    int live = b.workers;
    while (live > 0) {
        std::vector<pollfd> pf;
        for (auto &w : ws) { if (!w.done) { pf.push_back({ w.fd, POLLIN, 0 }); } }
        if (pf.empty()) { break; }
        poll(pf.data(), (nfds_t) pf.size(), 1000);
        for (auto &w : ws) {
            if (w.done) { continue; }
            // hard timeout, enforced from outside: the in-process watchdog (SIGALRM) cannot interrupt a run whose threads are all blocked in a
            // futex under ThreadSanitizer (signals are delivered at synchronisation points only)
            if (w.cur >= 0 && !w.hard_killed && now_s() - w.cur_since > 75.0) {
                FILE *ef = fopen(w.errpath.c_str(), "a"); if (ef) { fprintf(ef, "\nVSIM-HANG hard timeout: run %lld made no progress for 75 s (killed by the driver)\n", (long long) w.cur); fclose(ef); }
                kill(w.pid, SIGKILL); w.hard_killed = true;
            }
            bool readable = false, hup = false;
            for (auto &p : pf) { if (p.fd == w.fd) { readable = p.revents & POLLIN; hup = p.revents & (POLLHUP | POLLERR); } }
            if (!readable && !hup) { continue; }
            char buf[65536]; ssize_t n = read(w.fd, buf, sizeof buf);
            if (n > 0) { w.buf.append(buf, (size_t) n); }
            // parse complete blocks
            for (;;) {
                size_t nl = w.buf.find('\n');
                if (nl == std::string::npos) { break; }
                std::string head = w.buf.substr(0, nl);
                if (head == "E") { w.buf.erase(0, nl + 1); w.cur = -1; continue; }
                char tag = head[0];
                std::istringstream hs(head.substr(1)); uint64_t idx = 0; size_t len = 0; hs >> idx;
                if (tag == 'B') { w.cur = (int64_t) idx; w.cur_since = now_s(); w.buf.erase(0, nl + 1); continue; }
                if (tag == 'D') { int okv = 0; hs >> okv; st.det_checked++; if (!okv) { st.det_mismatch++; } w.buf.erase(0, nl + 1); continue; }
                hs >> len;
                if (w.buf.size() < nl + 1 + len) { break; }
                std::string body = w.buf.substr(nl + 1, len);
                w.buf.erase(0, nl + 1 + len);
                if (tag == 'R') {
                    RunResult r; de_result(body, r);
                    absorb(st, r);
                    st.fp_by_index[idx] = r.fingerprint;
                    w.cur = -1;
                    if (r.violation && !r.harness_error) { st.violations_raw++; pending_viol[idx] = r; }
                } else if (tag == 'P') {
                    st.plans[idx] = body;
                    if (st.sample_plans.size() < 4 && !pending_viol.count(idx)) { st.sample_plans.push_back(body); }
                    auto it = pending_viol.find(idx);
                    if (it != pending_viol.end()) {
                        Candidate c; c.index = idx; Plan::parse(body, c.plan);
                        c.v.bad = true; c.v.cls = it->second.cls; c.v.sig = it->second.sig; c.v.detail = it->second.detail; c.v.fp = it->second.fingerprint;
                        cands.push_back(c); pending_viol.erase(it);
                    }
                }
            }
            if (n == 0 || (hup && n <= 0)) {
                int status = 0; waitpid(w.pid, &status, 0);
                close(w.fd);
                bool clean = WIFEXITED(status) && WEXITSTATUS(status) == 0;
                if (!clean && w.cur >= 0) {
                    // the worker died inside run w.cur
                    st.crashes++; st.evaluations++;
                    std::string text; read_file(w.errpath, text);
                    Candidate c; c.index = (uint64_t) w.cur; c.plan = plan_for_index(b, fixed, (uint64_t) w.cur); c.from_crash = true;
                    std::string kind, func; classify_crash(text, status, kind, func);
                    c.v.bad = true; c.v.cls = "crash:" + kind; c.v.sig = c.v.cls + "|" + func;
                    if (text.size() > 3000) { text.resize(3000); }
                    c.v.detail = text;
                    cands.push_back(c);
                    uint64_t next = (uint64_t) w.cur + (uint64_t) b.workers;
                    unlink(w.errpath.c_str());
                    if (next < b.nruns && (now_s() < b.deadline || next < fixed.size())) { spawn_worker(w, b, fixed, next); continue; }
                } else if (!clean) {
                    fprintf(stderr, "vsim: worker %d exited abnormally outside a run (status %d)\n", w.id, status);
                }
                unlink(w.errpath.c_str());
                w.done = true; live--;
            }
        }
    }
}

// ---------------------------------------------------------------- evidence
static std::string json_str_list(const std::vector<std::string> &v) {
    std::string o = "[";
    for (size_t i = 0; i < v.size(); i++) { o += (i ? "," : ""); o += "\"" + json_escape(v[i]) + "\""; }
    return o + "]";
}

static std::string g_dump_fp;
static size_t g_nregress = 0;
static int cmd_check(const std::string &id, int tier, uint64_t seed, int64_t runs_override, int64_t secs_override, int workers) {
    const PropModule *m = find_module(id);
    if (!m) { fprintf(stderr, "vsim: unknown property %s\n", id.c_str()); return 2; }
    double t0 = now_s();
    BatchCfg b; b.m = m; b.tier = tier; b.seed = seed;
    std::vector<Plan> fixed;
    if (m->fixed_plans) { fixed = m->fixed_plans(tier); for (auto &p : fixed) { p.prop = m->id; } }
    {   // regression corpus: minimised replay files of violations other seeds found and that were then fixed in /repo (regress/<ID>-*.json); run first, every time
        std::string dir = getenv("VSIM_REGRESS_DIR") ? getenv("VSIM_REGRESS_DIR") : VERIF_DIR + "/regress";
        std::vector<std::string> names;
        if (DIR *d = opendir(dir.c_str())) { while (struct dirent *e = readdir(d)) { std::string n = e->d_name; if (n.rfind(std::string(m->id) + "-", 0) == 0 && n.size() > 5 && n.substr(n.size() - 5) == ".json") { names.push_back(n); } } closedir(d); }
        std::sort(names.begin(), names.end());
        std::vector<Plan> reg;
        for (auto &n : names) { std::string txt; Plan p; if (read_file(dir + "/" + n, txt) && Plan::parse(txt, p, nullptr, nullptr) && p.prop == m->id) { reg.push_back(p); } }
        g_nregress = reg.size();
        fixed.insert(fixed.begin(), reg.begin(), reg.end());
    }
    b.nfixed = fixed.size();
    b.nruns = fixed.size() + (uint64_t) (runs_override >= 0 ? runs_override : (tier ? m->thorough_runs : m->quick_runs));
    double secs = (double) (secs_override >= 0 ? secs_override : (tier ? m->thorough_secs : m->quick_secs));
    b.deadline = t0 + secs;
    b.workers = workers;
    b.det_every = 16;
    printf("vsim: property=%s tier=%s seed=%llu runs<=%llu (fixed %zu) secs<=%.0f workers=%d\n", m->id, tier ? "thorough" : "quick",
           (unsigned long long) seed, (unsigned long long) b.nruns, fixed.size(), secs, workers);
    fflush(stdout);
    BatchStats st; std::vector<Candidate> cands;
    run_batch(b, fixed, st, cands);
    double t_search = now_s() - t0;
    if (!g_dump_fp.empty()) { std::string o; for (auto &kv : st.fp_by_index) { o += std::to_string(kv.first) + " " + u64hex(kv.second) + "\n"; } write_file(g_dump_fp, o); }

    // ---- gate, minimise, classify against known findings
    std::vector<Known> known = load_known();
    std::map<std::string, Candidate> by_sig;
    std::map<std::string, int> sig_count;
    for (auto &c : cands) { sig_count[c.v.sig]++; if (!by_sig.count(c.v.sig)) { by_sig[c.v.sig] = c; } }
    if (getenv("VSIM_LIST_SIGS")) {
        for (auto &kv : sig_count) { Known *k = match_known(known, m->id, kv.first); printf("SIG %5d %s %s  (e.g. run %llu)\n", kv.second, k ? "known" : "NEW  ", kv.first.c_str(), (unsigned long long) by_sig[kv.first].index);
            if (!k && getenv("VSIM_LIST_DETAIL")) { std::string d = by_sig[kv.first].v.detail; if (d.size() > 1500) { d.resize(1500); } printf("    %s\n", d.c_str()); } }
        return 0;
    }
    int new_violations = 0, nondeterministic = 0, known_seen = 0;
    std::vector<std::string> finding_lines, violation_json;
    mkdir((VERIF_DIR + "/replays").c_str(), 0755);
    int handled = 0;
    std::set<std::string> reported_sigs;
    for (auto &kv : by_sig) {
        Candidate &c = kv.second;
        Known *k = match_known(known, m->id, c.v.sig);
        if (k) {
            if (!k->seen) { k->seen = true; known_seen++; printf("KNOWN-FINDING: %s (seen %d times; e.g. run %llu)\n", k->text.c_str() + 7, sig_count[c.v.sig], (unsigned long long) c.index); }
            continue;
        }
        if (handled >= 6) { printf("vsim: further distinct signature not minimised (budget): %s\n", c.v.sig.c_str()); new_violations++; continue; }
        handled++;
        // gate (a): same plan, fresh process, twice
        ChildOutcome o1 = run_in_child(*m, c.plan), o2 = run_in_child(*m, c.plan);
        Verdict v1 = verdict_of(o1), v2 = verdict_of(o2);
        if (!(v1.bad && v2.bad && v1.cls == c.v.cls && v2.cls == c.v.cls && v1.fp == v2.fp)) {
            nondeterministic++;
            printf("NONDETERMINISM property=%s sig=%s run=%llu first=%s/%s second=%s/%s\n", m->id, c.v.sig.c_str(), (unsigned long long) c.index,
                   v1.bad ? v1.cls.c_str() : "clean", u64hex(v1.fp).c_str(), v2.bad ? v2.cls.c_str() : "clean", u64hex(v2.fp).c_str());
            printf("  original report: %s\n", c.v.detail.substr(0, 2500).c_str());
            continue;
        }
        Plan minp = minimise(*m, c.plan, c.v.cls, 60.0);
        ChildOutcome om = run_in_child(*m, minp);
        Verdict vm = verdict_of(om);
        if (!(vm.bad && vm.cls == c.v.cls)) { minp = c.plan; vm = v1; }
        // the minimised plan may have a (narrower) signature of its own: re-check against known findings
        Known *k2 = match_known(known, m->id, vm.sig);
        if (k2) {
            if (!k2->seen) { k2->seen = true; known_seen++; printf("KNOWN-FINDING: %s (seen via minimised run %llu)\n", k2->text.c_str() + 7, (unsigned long long) c.index); }
            continue;
        }
        if (reported_sigs.count(vm.sig)) { continue; }   // same minimised signature already reported
        reported_sigs.insert(vm.sig);
        std::string rp = VERIF_DIR + "/replays/" + m->id + "-" + std::to_string(minp.seed) + "-" + u64hex(hash_str(vm.sig)).substr(8) + ".json";
        std::string detail = vm.detail; if (detail.size() > 1500) { detail.resize(1500); }
        std::string rj = "{\"property\":\"" + std::string(m->id) + "\",\"engine\":\"" + m->engine + "\",\"build_variant\":\"" + BUILD_VARIANT + "\",\"expected_class\":\"" + json_escape(vm.cls) +
                         "\",\"expected_signature\":\"" + json_escape(vm.sig) + "\",\"expected_fingerprint\":\"" + u64hex(vm.fp) + "\",\"detail\":\"" +
                         json_escape(detail) + "\",\"original_ops\":" + std::to_string(c.plan.ops.size()) + ",\"minimised_ops\":" + std::to_string(minp.ops.size()) +
                         ",\"minimise_execs\":" + std::to_string(g_min_execs) + ",\"plan\":" + minp.json() + "}\n";
        write_file(rp, rj);
        // gate (b): the replay file reproduces in a fresh process
        std::string cmd = "/proc/self/exe";
        ChildOutcome orp = run_in_child(*m, minp);
        Verdict vr = verdict_of(orp);
        if (!(vr.bad && vr.cls == vm.cls)) { nondeterministic++; printf("NONDETERMINISM property=%s replay of minimised plan did not reproduce (%s)\n", m->id, rp.c_str()); continue; }
        new_violations++;
        printf("VIOLATION property=%s replay=%s\n", m->id, rp.c_str());
        printf("  class=%s signature=%s occurrences=%d ops %zu->%zu\n  %s\n", vm.cls.c_str(), vm.sig.c_str(), sig_count[c.v.sig], c.plan.ops.size(), minp.ops.size(),
               detail.substr(0, 600).c_str());
        violation_json.push_back("{\"signature\":\"" + json_escape(vm.sig) + "\",\"replay\":\"" + json_escape(rp) + "\",\"plan\":" + minp.json() + "}");
    }
    for (auto &k : known) { if (k.seen) { finding_lines.push_back(k.text); } }

    // ---- evidence
    double wall = now_s() - t0;
    std::ostringstream ev;
    std::vector<std::string> fired, enabled_never;
    ev << "{\n \"property_id\": \"" << m->id << "\",\n \"tier\": \"" << (tier ? "thorough" : "quick") << "\",\n \"seed\": " << (long long) (seed & 0x7fffffffffffffffULL)
       << ",\n \"level\": \"" << m->level << "\",\n \"wall_s\": " << wall << ",\n \"violations\": " << new_violations << ",\n";
    ev << " \"coverage\": {\n  \"evaluations\": " << st.evaluations << ",\n  \"distinct_nontrivial\": " << st.distinct_nontrivial.size()
       << ",\n  \"distinct_fingerprints_all\": " << st.distinct_all.size() << ",\n  \"nontrivial_runs\": " << st.nontrivial
       << ",\n  \"rule\": \"" << json_escape(m->rule) << "\",\n";
    if (g_nregress) { ev << "  \"regression_replays_rerun\": " << g_nregress << ",\n"; }
    if (m->exhaustive_fixed && fixed.size()) { ev << "  \"fixed_plans_enumerated\": " << fixed.size() << ",\n"; }
    ev << "  \"samples\": [";
    for (size_t i = 0; i < st.sample_plans.size(); i++) { ev << (i ? ",\n   " : "\n   ") << st.sample_plans[i]; }
    ev << "\n  ],\n";
    ev << "  \"runs_per_hour\": " << (t_search > 0 ? (double) st.evaluations * 3600.0 / t_search : 0) << ",\n";
    ev << "  \"search_wall_s\": " << t_search << ",\n";
    ev << "  \"sim_time_covered_s\": " << st.sim_ms / 1000.0 << ",\n";
    ev << "  \"seeds\": {\"base\": " << (long long) (seed & 0x7fffffffffffffffULL) << ", \"derivation\": \"run i uses mix(base, hash(property:tier), i); fixed plans first\", \"first_index\": 0, \"last_index\": " << (st.evaluations ? st.evaluations - 1 : 0) << "},\n";
    ev << "  \"counters\": {";
    { bool first = true; for (auto &kv : st.counters) { ev << (first ? "" : ", ") << "\"" << json_escape(kv.first) << "\": " << kv.second; first = false; if (kv.first.rfind("fault.", 0) == 0 && kv.second == 0) { enabled_never.push_back(kv.first); } } }
    ev << "},\n";
    ev << "  \"faults_enabled_never_fired\": " << json_str_list(enabled_never) << ",\n";
    ev << "  \"states_reached\": " << st.states.size() << ",\n";
    { std::vector<std::string> some; for (auto &s : st.states) { if (some.size() < 40) { some.push_back(s); } } ev << "  \"states_sample\": " << json_str_list(some) << ",\n"; }
#if defined(VSIM_VARIANT_TSAN)
    ev << "  \"build_variant\": \"tsan\",\n";
#elif defined(VSIM_VARIANT_ASAN)
    ev << "  \"build_variant\": \"asan+ubsan\",\n";
#else
    ev << "  \"build_variant\": \"plain\",\n";
#endif
    if (const char *emb = getenv("VSIM_EVIDENCE_EMBED")) {
        // evidence of the same check run under another build (C20: the ASan pass), embedded verbatim
        std::string other; if (read_file(emb, other) && !other.empty()) { while (!other.empty() && (other.back() == '\n' || other.back() == ' ')) { other.pop_back(); } ev << "  \"second_build_pass\": " << other << ",\n"; }
    }
    ev << "  \"crashed_runs\": " << st.crashes << ",\n";
    ev << "  \"raw_violating_runs\": " << st.violations_raw << ",\n";
    ev << "  \"determinism\": {\"runs_rechecked_in_process\": " << st.det_checked << ", \"mismatches\": " << st.det_mismatch << ", \"nondeterministic_violations\": " << nondeterministic << "},\n";
    ev << "  \"harness_errors\": " << st.harness_errors << ",\n";
    ev << "  \"components\": {\"real\": " << json_str_list(m->real_components) << ", \"stub\": " << json_str_list(m->stub_components) << "},\n";
    ev << "  \"known_findings_seen\": " << json_str_list(finding_lines) << ",\n";
    ev << "  \"violations_detail\": [";
    for (size_t i = 0; i < violation_json.size(); i++) { ev << (i ? "," : "") << violation_json[i]; }
    ev << "]\n },\n";
    ev << " \"assumptions\": " << json_str_list(m->assumptions) << "\n}\n";
    mkdir((VERIF_DIR + "/evidence").c_str(), 0755);
    if (const char *ep = getenv("VSIM_EVIDENCE_PATH")) { write_file(ep, ev.str()); }
    else { write_file(VERIF_DIR + "/evidence/" + m->id + ".json", ev.str()); }

    printf("vsim: %s %s: %llu runs (%zu distinct non-trivial), %llu crashed, %llu raw violating, determinism %llu/%llu ok, %.1fs\n", m->id, tier ? "thorough" : "quick",
           (unsigned long long) st.evaluations, st.distinct_nontrivial.size(), (unsigned long long) st.crashes, (unsigned long long) st.violations_raw,
           (unsigned long long) (st.det_checked - st.det_mismatch), (unsigned long long) st.det_checked, wall);
    if (st.harness_errors) {
        printf("vsim: HARNESS-ERROR in %llu runs (control/setup failed), e.g. %s\n", (unsigned long long) st.harness_errors, st.harness_details.empty() ? "" : st.harness_details[0].c_str());
    }
    fflush(stdout);
    if (new_violations) { return 1; }
    if (nondeterministic || st.det_mismatch || st.harness_errors) { return 2; }
    return 0;
}

static bool g_inproc = false;
static int cmd_replay(const std::string &path) {
    std::string txt;
    if (!read_file(path, txt)) { fprintf(stderr, "vsim: cannot read %s\n", path.c_str()); return 2; }
    Plan p; std::string ecls, esig;
    if (!Plan::parse(txt, p, &ecls, &esig)) { fprintf(stderr, "vsim: cannot parse %s\n", path.c_str()); return 2; }
    const PropModule *m = find_module(p.prop);
    if (!m) { fprintf(stderr, "vsim: unknown property %s\n", p.prop.c_str()); return 2; }
    if (g_inproc) { RunResult r = m->exec(p); printf("%s", ser_result(r).c_str()); return r.violation ? 1 : 0; }
    ChildOutcome o = run_in_child(*m, p);
    Verdict v = verdict_of(o);
    printf("replay %s: %s class=%s signature=%s fingerprint=%s\n%s\n", path.c_str(), v.bad ? "VIOLATES" : "clean", v.cls.c_str(), v.sig.c_str(), u64hex(v.fp).c_str(), v.detail.substr(0, 2000).c_str());
    if (v.bad && (ecls.empty() || ecls == v.cls)) { printf("VIOLATION property=%s replay=%s\n", p.prop.c_str(), path.c_str()); return 1; }
    return v.bad ? 1 : 0;
}

static int cmd_run1(const std::string &id, int tier, uint64_t seed, uint64_t index, bool verbose) {
    const PropModule *m = find_module(id);
    if (!m) { return 2; }
    BatchCfg b; b.m = m; b.tier = tier; b.seed = seed; b.workers = 1; b.nruns = index + 1; b.deadline = 0; b.det_every = 0;
    std::vector<Plan> fixed; if (m->fixed_plans) { fixed = m->fixed_plans(tier); for (auto &p : fixed) { p.prop = m->id; } }
    Plan p = plan_for_index(b, fixed, index);
    if (verbose) { printf("%s\n", p.json().c_str()); fflush(stdout); }
    RunResult r = m->exec(p);
    printf("%s", ser_result(r).c_str());
    if (getenv("VSIM_TWICE")) { RunResult r2 = m->exec(p); printf("second-run fp %s %s\n", u64hex(r2.fingerprint).c_str(), r2.fingerprint == r.fingerprint ? "same" : "DIFFERENT"); }
    return r.violation ? 1 : 0;
}

int main(int argc, char **argv) {
    vsim_enable();
    unsetenv("PSCORE_DEBUG_FILE"); unsetenv("PSCORE_DEBUG_FILE_APPEND"); unsetenv("MATRIX_CHACHA20POLY1305_REF");
    signal(SIGPIPE, SIG_IGN);
    if (const char *vd = getenv("VERIF_DIR")) { VERIF_DIR = vd; }
    std::vector<std::string> a(argv + 1, argv + argc);
    if (a.empty()) { fprintf(stderr, "usage: vsim check <id> [--tier quick|thorough] [--seed N] [--runs N] [--secs N] [--workers N] | replay <file> | run1 <id> <index> | list\n"); return 2; }
    std::string cmd = a[0];
    int tier = 0; uint64_t seed = 20261002; int64_t runs = -1, secs = -1; int workers = 16; bool verbose = false;
    if (const char *s = getenv("VERIF_SEED")) { if (*s) { seed = strtoull(s, nullptr, 10); } }
    if (const char *t = getenv("VERIF_TIER")) { if (!strcmp(t, "thorough")) { tier = 1; } }
    std::vector<std::string> pos;
    for (size_t i = 1; i < a.size(); i++) {
        if (a[i] == "--tier" && i + 1 < a.size()) { tier = a[++i] == "thorough" ? 1 : 0; }
        else if (a[i] == "--seed" && i + 1 < a.size()) { seed = strtoull(a[++i].c_str(), nullptr, 10); }
        else if (a[i] == "--runs" && i + 1 < a.size()) { runs = atoll(a[++i].c_str()); }
        else if (a[i] == "--secs" && i + 1 < a.size()) { secs = atoll(a[++i].c_str()); }
        else if (a[i] == "--workers" && i + 1 < a.size()) { workers = atoi(a[++i].c_str()); }
        else if (a[i] == "-v") { verbose = true; }
        else if (a[i] == "--inproc") { g_inproc = true; }
        else if (a[i] == "--dump-fp" && i + 1 < a.size()) { g_dump_fp = a[++i]; }
        else { pos.push_back(a[i]); }
    }
    if (cmd == "list") { for (auto &m : registry()) { printf("%s %s %s\n", m.id, m.engine, m.variant); } return 0; }
    if (cmd == "check" && pos.size() >= 1) { return cmd_check(pos[0], tier, seed, runs, secs, workers); }
    if (cmd == "replay" && pos.size() >= 1) { return cmd_replay(pos[0]); }
    if (cmd == "run1" && pos.size() >= 2) { return cmd_run1(pos[0], tier, seed, strtoull(pos[1].c_str(), nullptr, 10), verbose); }
    fprintf(stderr, "vsim: bad arguments\n");
    return 2;
}
