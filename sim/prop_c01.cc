// C01 - application data only after an authenticated, completed handshake; nothing an attacker
// without the keys sends is ever reported as received application data.
#include "proto.h"
#include "forge.h"
#include "peek.h"

static bool is_prefix(const Bytes &d, const Bytes &s) { return d.size() <= s.size() && std::equal(d.begin(), d.end(), s.begin()); }
static Bytes concat(const std::vector<Bytes> &v) { Bytes o; for (auto &x : v) { o.insert(o.end(), x.begin(), x.end()); } return o; }

static const char *INJ[] = { "plain23", "plain23", "garbage", "replay", "reflect", "cross", "relabel", "relabel" };

static Plan c01_gen(uint64_t seed, int tier, uint64_t index) {
    (void) tier; (void) index;
    Rng r(seed);
    Plan p;
    gen_pair_cfg(r, p, true);
    if (r.chance(1, 2)) { p.cfg["sibling"] = 1; }
    if (r.chance(1, 5) && p.get("ver") != 2) { p.cfg["resume"] = 1; }
    // TLS 1.3 0-RTT: the ticket of the first connection and the server session of the measured one may disagree about early data
    if (p.get("ver") == 2 && r.chance(1, 4)) {
        static const int E[] = { 0, 0, 1024, 16384 };
        p.cfg["resume"] = 1; p.cfg["early1"] = E[1 + r.below(3)]; p.cfg["early"] = E[r.below(4)];
        int ne = 1 + (int) r.below(3);
        for (int i = 0; i < ne; i++) { p.ops.push_back(Op("early_send", 0, (int64_t) (1 + r.below(700)), (int64_t) r.below(2))); }
    }
    // park the pair at an arbitrary record boundary of the honest exchange
    int park = r.chance(1, 6) ? 0 : (int) r.below(14);
    if (park) { p.ops.push_back(Op("steps", park)); }
    int ninj = 1 + (int) r.below(4);
    for (int i = 0; i < ninj; i++) {
        if (r.chance(1, 4)) { p.ops.push_back(Op("try_encode", (int64_t) r.below(2), (int64_t) (1 + r.below(300)), (int64_t) r.below(2))); }
        Op o("inject", (int64_t) r.below(2), (int64_t) r.below(1000), (int64_t) r.below(50), (int64_t) (r.below(3) * 2), INJ[r.below(sizeof INJ / sizeof INJ[0])]);
        p.ops.push_back(o);
        if (r.chance(1, 3)) { p.ops.push_back(Op("steps", (int64_t) (1 + r.below(3)))); }
    }
    // let the honest exchange go on: attacker bytes must not surface later either
    p.ops.push_back(Op("hs"));
    int ns = (int) r.below(3);
    for (int i = 0; i < ns; i++) { p.ops.push_back(Op("send", (int64_t) r.below(2), (int64_t) (1 + r.below(2000)))); }
    if (r.chance(1, 3)) { p.ops.push_back(Op("inject", (int64_t) r.below(2), (int64_t) r.below(1000), (int64_t) r.below(50), 0, INJ[r.below(sizeof INJ / sizeof INJ[0])])); }
    p.ops.push_back(Op("pump"));
    return p;
}

// aimed plans: one attacker record at every early parking point, per role and version
static std::vector<Plan> c01_fixed(int tier) {
    std::vector<Plan> v;
    int maxpark = tier ? 10 : 5;
    for (int ver = 0; ver < 5; ver++) {
        for (int park = 0; park <= maxpark; park++) {
            for (int dir = 0; dir < 2; dir++) {
                for (int k = 0; k < 2; k++) {
                    Plan p; p.seed = 1000 + (uint64_t) (ver * 1000 + park * 10 + dir * 2 + k);
                    p.cfg["ver"] = ver;
                    if (ver == 2) { p.cfg["suite"] = TLS_AES_128_GCM_SHA256; p.cfg["sid_kind"] = KK_EC256; }
                    else { p.cfg["suite"] = TLS_ECDHE_ECDSA_WITH_AES_128_CBC_SHA; }
                    if (park) { p.ops.push_back(Op("steps", park)); }
                    p.ops.push_back(Op("inject", dir, k ? 3 : 2, 0, 2, k ? "garbage" : "plain23"));
                    p.ops.push_back(Op("hs"));
                    v.push_back(p);
                }
            }
        }
    }
    for (int variant = 1; variant <= 2; variant++) { for (int noems = 0; noems < 2; noems++) { Plan p; p.seed = 9900 + (uint64_t) (variant * 2 + noems); p.cfg["forge_limbo"] = variant; p.cfg["noems"] = noems; v.push_back(p); } }
    for (int variant = 1; variant <= 2; variant++) { for (int su = 0; su < 3; su++) { for (int cb = 0; cb < 2; cb++) { Plan p; p.seed = 9800 + (uint64_t) (variant * 10 + su * 2 + cb); p.cfg["rogue_psk"] = variant; p.cfg["su"] = su; p.cfg["cb"] = cb ? CB_STRICT : CB_NONE; v.push_back(p); } } }
    // 0-RTT grid: (limit in the ticket) x (limit of the server session that receives the resumption) x early writes x TLS 1.3 suite
    static const int E[] = { 0, 1024, 16384 };
    for (int e1 = 0; e1 < 3; e1++) {
        for (int e2 = 0; e2 < 3; e2++) {
            for (int n = 1; n <= 2; n++) {
                for (int su = 0; su < 2; su++) {
                    Plan p; p.seed = 9000 + (uint64_t) (e1 * 100 + e2 * 10 + n * 2 + su);
                    p.cfg["ver"] = 2; p.cfg["suite"] = su ? TLS_AES_256_GCM_SHA384 : TLS_AES_128_GCM_SHA256; p.cfg["sid_kind"] = KK_EC256;
                    p.cfg["resume"] = 1; p.cfg["early1"] = E[e1]; p.cfg["early"] = E[e2];
                    for (int i = 0; i < n; i++) { p.ops.push_back(Op("early_send", 0, 300 + 100 * i, i)); }
                    p.ops.push_back(Op("hs")); p.ops.push_back(Op("send", 0, 200)); p.ops.push_back(Op("send", 1, 200)); p.ops.push_back(Op("pump"));
                    v.push_back(p);
                }
            }
        }
    }
    return v;
}

// A keyless attacker plays the server of a TLS 1.2 ticket resumption: it knows only what is on the wire and GUESSES that the client will key the
// connection from an all-zero master secret.  Variant 1: the client's stored session holds a session id and a ticket (what e.g. an OpenSSL server
// hands out); variant 2: a ticket only (MatrixSSL server).  The attacker answers with a ServerHello carrying another session id and no ticket
// extension, then ChangeCipherSpec, Finished and an application record, all sealed under keys derived from the zero secret.
static RunResult c01_forge_exec(const Plan &p) {
    RunResult res;
    vsim_run_reset(p.seed);
    sim_global_open();
    int variant = (int) p.get("forge_limbo");
    {
        PairCfg pc; pc.version = v_tls_1_2; pc.suites = { TLS_RSA_WITH_AES_128_GCM_SHA256 }; pc.server_identity = KK_RSA2048; pc.tickets = true;
        if (p.get("noems")) { pc.ems_c = -1; }
        TlsWorld w;
        bool ok = w.setup(pc) && w.connect() && w.handshake();
        if (ok) { Bytes a = tagged_payload(0, 1, 20); w.cli->app_send(a.data(), a.size()); w.pump(); w.cli->app_close(); w.pump(); }
        w.close_sessions();
        int idLen = 0, tLen = 0, hasPsk = 0; unsigned int cid = 0;
        if (ok) { vsim_sid_info((struct sslSessionId *) w.sid, &idLen, &tLen, &hasPsk, &cid); }
        if (!ok || tLen == 0) { res.harness_error = true; res.detail = "first connection / ticket missing"; }
        else {
            if (variant == 1) { memset(vsim_sid_id_bytes((struct sslSessionId *) w.sid), 0x42, 32); vsim_sid_set_idlen((struct sslSessionId *) w.sid, 32); }
            EpCfg c; c.server = false; c.node = NODE_CLIENT; c.versions = { v_tls_1_2 }; c.suites = pc.suites; c.sid = w.sid; c.ticket_resumption = true; c.cb_policy = CB_STRICT; c.ems = pc.ems_c;
            MxEndpoint cli;
            if (cli.create(c, w.ckeys) < 0) { res.harness_error = true; res.detail = "client create"; }
            else {
                Bytes ch = cli.pull();
                if (ch.size() < 5 + 4 + 2 + 32) { res.harness_error = true; res.detail = "no ClientHello"; }
                else {
                    Bytes ch_msg(ch.begin() + 5, ch.end());
                    Bytes crand(ch_msg.begin() + 6, ch_msg.begin() + 38);
                    Bytes srand(32); for (size_t i = 0; i < 32; i++) { srand[i] = (unsigned char) (0xa0 + i); }
                    Bytes body = { 3, 3 }; body.insert(body.end(), srand.begin(), srand.end());
                    body.push_back(32); for (int i = 0; i < 32; i++) { body.push_back(0x77); }       // a session id the client did not offer
                    body.push_back(0x00); body.push_back(0x9c); body.push_back(0);
                    Bytes ext;
                    if (!p.get("noems")) { ext.insert(ext.end(), { 0x00, 0x17, 0x00, 0x00 }); }     // echo extended_master_secret if the client offered it
                    if (!ext.empty()) { body.push_back((unsigned char) (ext.size() >> 8)); body.push_back((unsigned char) ext.size()); body.insert(body.end(), ext.begin(), ext.end()); }
                    Bytes sh_msg = { 2, 0, (unsigned char) (body.size() >> 8), (unsigned char) body.size() }; sh_msg.insert(sh_msg.end(), body.begin(), body.end());
                    Bytes zero_ms(48, 0);
                    Bytes seed = srand; seed.insert(seed.end(), crand.begin(), crand.end());
                    Bytes kb = forge_tls12_prf_sha256(zero_ms, "key expansion", seed, 40);
                    Bytes tr = ch_msg; tr.insert(tr.end(), sh_msg.begin(), sh_msg.end());
                    Bytes vd = forge_tls12_prf_sha256(zero_ms, "server finished", forge_sha256(tr), 12);
                    if (kb.size() != 40 || vd.size() != 12) { res.harness_error = true; res.detail = "PRF"; }
                    else {
                        Bytes skey(kb.begin() + 16, kb.begin() + 32), siv(kb.begin() + 36, kb.begin() + 40);
                        Bytes fin = { 20, 0, 0, 12 }; fin.insert(fin.end(), vd.begin(), vd.end());
                        Bytes evil = { 'A', 'T', 'T', 'A', 'C', 'K', 'E', 'R', '-', 'D', 'A', 'T', 'A' };
                        Bytes r1 = make_record(22, 0x0303, sh_msg), r2 = make_record(20, 0x0303, Bytes{ 1 });
                        Bytes r3 = forge_gcm_record(22, skey, siv, 0, fin), r4 = forge_gcm_record(23, skey, siv, 1, evil);
                        cli.feed(r1.data(), r1.size());
                        if (getenv("VSIM_TRACE")) { Bytes o = cli.pull(); fprintf(stderr, "   client after forged ServerHello: out=%s err=%d\n", hex(o.data(), o.size()).c_str(), cli.first_error); }
                        if (cli.alive()) { cli.feed(r2.data(), r2.size()); }
                        if (cli.alive()) { cli.feed(r3.data(), r3.size()); }
                        (void) cli.pull();
                        if (cli.alive()) { cli.feed(r4.data(), r4.size()); }
                        bool completed = cli.alive() && cli.is_complete();
                        std::string ctx = std::string("cli,tls1.2,forged_server_zero_master,") + (variant == 1 ? "id_and_ticket" : "ticket_only");
                        res.count(std::string("forge.") + (completed ? "client_completed" : "client_refused"));
                        if (!cli.delivered.empty()) {
                            res.violate("appdata_not_from_peer", ctx, "a server that holds no key at all (it guessed an all-zero master secret for the ticket resumption) completed the handshake with the client and " +
                                        std::to_string(cli.delivered[0].size()) + " bytes of its data were delivered to the application");
                        } else if (completed) {
                            res.violate("completed_with_keyless_peer", ctx, "the client reported the handshake complete with a server that holds no key at all (all-zero master secret)");
                        }
                        res.fingerprint = mix64(cli.fp.value(), (uint64_t) variant);
                        res.nontrivial = true;
                    }
                }
            }
        }
        w.teardown();
    }
    sim_global_close();
    return res;
}

// A rogue TLS 1.3 server that holds no credential the client trusts and no PSK: it claims "pre_shared_key selected" (index 0) in its ServerHello
// although the client offered none (variant 0) or offered a ticket this server cannot open (variant 1), skips Certificate/CertificateVerify and
// keys its Finished from the all-zero PSK - everything it needs is public.  The client must not complete, deliver or encrypt.
static RunResult c01_rogue_psk_exec(const Plan &p) {
    RunResult res;
    vsim_run_reset(p.seed);
    sim_global_open();
    int variant = (int) p.get("rogue_psk") - 1;
    {
        static const uint16_t S13[] = { TLS_AES_128_GCM_SHA256, TLS_AES_256_GCM_SHA384, TLS_CHACHA20_POLY1305_SHA256 };
        PairCfg pc; pc.version = v_tls_1_3; pc.suites = { S13[(uint64_t) p.get("su") % 3] }; pc.server_identity = KK_EC256; pc.cb_c = (int) p.get("cb", CB_STRICT);
        pc.tickets = variant == 1;
        TlsWorld w; bool ok = w.setup(pc);
        if (ok && variant == 1) {
            // an honest first connection leaves a ticket with the client; the rogue then stands in for the server and cannot open it
            ok = w.connect() && w.handshake();
            if (ok) { Bytes a = tagged_payload(0, 1, 20); w.cli->app_send(a.data(), a.size()); w.pump(); w.cli->app_close(); w.pump(); }
            w.close_sessions();
            unsigned char name[16], sym[32], mac[32];
            vsim_set_node(NODE_SERVER);
            ticket_key_material(9, name, sym, mac); matrixSslLoadSessionTicketKeys(w.skeys, name, sym, 32, mac, 32);
            ticket_key_material(1, name, sym, mac); matrixSslDeleteSessionTicketKey(w.skeys, name);
            vsim_set_node(NODE_HARNESS);
        }
        if (!ok) { res.harness_error = true; res.detail = "rogue_psk setup"; }
        else {
            // the client of the attacked connection trusts another CA only: the rogue has no certificate it would accept
            vsim_set_node(NODE_CLIENT);
            KeySpec cks; cks.identity = KK_NONE; cks.ca_mask = 1u << KK_EC384;
            sslKeys_t *ck = load_keys(cks);
            vsim_set_node(NODE_HARNESS);
            sslKeys_t *orig = w.ckeys; if (ck) { w.ckeys = ck; }
            if (!ck || !w.connect()) { res.harness_error = true; res.detail = "rogue_psk connect"; }
            else {
                vsim_poke_tls13_using_psk((ssl_t *) w.srv->ssl);
                w.handshake();
                Bytes evil = { 'R', 'O', 'G', 'U', 'E', '-', 'D', 'A', 'T', 'A' };
                if (w.srv->alive()) { w.srv->app_send(evil.data(), evil.size()); w.pump(); }
                Bytes secret = tagged_payload(0, 7, 24);
                int enc = w.cli->alive() ? w.cli->app_send(secret.data(), secret.size()) : -1;
                w.pump();
                std::string ctx = std::string("cli,tls1.3,rogue_server_claims_psk,") + (variant ? "ticket_offered" : "no_psk_offered");
                bool completed = w.cli->alive() && w.cli->is_complete();
                res.count(std::string("rogue_psk.") + (completed ? "client_completed" : "client_refused"));
                if (!w.cli->delivered.empty()) { res.violate("appdata_not_from_peer", ctx, "a server without any trusted certificate or PSK (it claimed pre_shared_key and keyed from the public all-zero PSK) had " + std::to_string(w.cli->delivered[0].size()) + " bytes delivered to the client application"); }
                else if (completed) { res.violate("completed_with_keyless_peer", ctx, "the client reported the handshake complete with a server that sent no Certificate and holds no PSK (selected_identity for a PSK the client never offered / the server cannot know)"); }
                else if (enc >= 0 && !w.srv->delivered.empty()) { res.violate("encode_before_completion", ctx, "the client encrypted application data for the rogue server"); }
                res.fingerprint = mix64(w.fingerprint(), (uint64_t) variant);
                res.nontrivial = true;
                w.close_sessions();
            }
            w.ckeys = orig;
            if (ck) { vsim_set_node(NODE_CLIENT); matrixSslDeleteKeys(ck); vsim_set_node(NODE_HARNESS); }
        }
        w.teardown();
    }
    sim_global_close();
    return res;
}

static RunResult c01_exec(const Plan &p) {
    if (p.get("forge_limbo")) { return c01_forge_exec(p); }
    if (p.get("rogue_psk")) { return c01_rogue_psk_exec(p); }
    RunResult res;
    vsim_run_reset(p.seed);
    sim_global_open();
    {
        ProtoRun pr(p);
        pr.run();
        if (pr.setup_failed) { res.harness_error = true; res.detail = pr.setup_detail + " cfg=" + cfg_label(p); }
        else {
            ProtoObs &o = pr.obs;
            std::string ver = ver_name(pr.pc.version);
            bool any_fault = false;
            for (int dir = 0; dir < 2 && !res.violation; dir++) {
                MxEndpoint &rcv = pr.w.peer(dir);
                const char *role = dir == DIR_C2S ? "srv" : "cli";
                Bytes S = concat(o.sent[dir]), D = concat(rcv.delivered);
                std::string ctx = std::string(role) + "," + ver + "," + (o.tampered[dir] ? o.tamper_kind[dir] : "none");
                if (o.tampered[dir]) { any_fault = true; }
                // TLS 1.3 0-RTT: a server session that enabled early data may deliver, before completion, exactly what the client wrote early
                // (the PSK authenticates it); everything else only after completion
                size_t n_pre = 0; Bytes Dpre;
                for (size_t i = 0; i < rcv.delivered.size() && i < rcv.delivered_complete.size() && !rcv.delivered_complete[i]; i++) { n_pre++; Dpre.insert(Dpre.end(), rcv.delivered[i].begin(), rcv.delivered[i].end()); }
                bool early_ok = false;
                if (n_pre && dir == DIR_C2S && pr.pc.version == v_tls_1_3 && pr.pc.max_early_data > 0 && !o.early_sent.empty()) {
                    Bytes E = concat(o.early_sent);
                    early_ok = is_prefix(Dpre, E);
                    if (early_ok) { D.erase(D.begin(), D.begin() + (long) Dpre.size()); res.count("early.delivered_before_completion", (int64_t) n_pre); }
                }
                bool from_peer;
                if (pr.pc.dtls()) {
                    from_peer = true;
                    for (auto &c : rcv.delivered) { bool f = false; for (auto &s : o.sent[dir]) { if (s == c) { f = true; break; } } if (!f) { from_peer = false; } }
                } else { from_peer = is_prefix(D, S); }
                if (!from_peer) {
                    res.violate("appdata_not_from_peer", ctx, "bytes reported as application data are not what the peer application sent: delivered " +
                                std::to_string(D.size()) + " bytes [" + hex(D.data(), D.size() < 24 ? D.size() : 24) + "...] sent " + std::to_string(S.size()) +
                                "; receiver complete=" + std::to_string(rcv.complete) + " first tamper=" + o.tamper_kind[dir] + " in hsState " + std::to_string(o.tamper_hs_state[dir]));
                    break;
                }
                for (size_t i = early_ok ? n_pre : 0; i < rcv.delivered_complete.size(); i++) {
                    if (!rcv.delivered_complete[i]) {
                        res.violate("appdata_before_completion", ctx, "application data delivered while HandshakeIsComplete()==0 (chunk " + std::to_string(i) + ")");
                        break;
                    }
                }
            }
            if (!res.violation && o.early_write_unpermitted) {
                res.violate("encode_before_completion", "cli," + ver + ",early_write", "the client accepted an application write before completion although matrixSslGetMaxEarlyData() reported that early data is not permitted");
            }
            for (int role = 0; role < 2 && !res.violation; role++) {
                if (o.encode_ok_before_complete[role]) {
                    res.violate("encode_before_completion", std::string(role ? "srv" : "cli") + "," + ver, "an application-data encode call succeeded before the handshake completed");
                }
            }
            res.nontrivial = any_fault;
            res.fingerprint = pr.fingerprint();
            for (auto &kv : o.counters) { res.counters[kv.first] += kv.second; }
            res.states = o.states;
            res.count(std::string("hs_completed.") + (o.hs_done ? "yes" : "no"));
            size_t dl = pr.w.cli->delivered.size() + pr.w.srv->delivered.size();
            if (dl) { res.count("runs_with_delivery"); }
        }
    }
    sim_global_close();
    return res;
}

static ModuleRegistrar reg({ "C01", "proto", "exploration",
    "seeded plans: swarm cfg (version, suite, auth, resumption) x park the honest exchange after k records x 1-4 attacker records "
    "(plaintext type 23, garbage, replay, reflection, cross-session, relabelled) x continuation; plus fixed aimed plans (one attacker record at every early parking "
    "point per role and version). non-trivial = at least one attacker record was handed to a live receiver; distinct = distinct history fingerprint",
    c01_gen, c01_exec, 6000, 150000, 75, 1200,
    { "core (incl. osdep.c)", "crypto", "matrixssl (client and server sessions)" },
    { "transport (in-memory stream/datagram link)", "attacker", "applications", "clock", "entropy (/dev/urandom)", "allocator front-end" },
    { "the attacker has no session keys: it only sees and crafts wire bytes", "applications follow the documented integration flow" },
    "asan", c01_fixed, false });
