// The simulated network between two endpoints, with an adversary hook on every record/datagram.
#pragma once
#include "endpoint.h"
#include <deque>
#include <memory>

enum { DIR_C2S = 0, DIR_S2C = 1 };

struct Record {
    int dir = 0;
    int index = 0;            // per-direction emission index
    bool dtls = false;
    uint8_t type = 0;
    uint16_t ver = 0;
    uint16_t epoch = 0;
    uint64_t seq = 0;
    size_t hdr = 5;
    Bytes raw;                // header + body
    size_t body_len() const { return raw.size() - hdr; }
};

// Parse as many complete records as possible from buf[off..); returns records and advances off.
bool parse_record(const Bytes &buf, size_t off, bool dtls, Record &out);
std::vector<Record> split_records(const Bytes &datagram, bool dtls);

// Handshake message view of a plaintext handshake record body (may hold several messages)
struct HsMsg { uint8_t type; uint32_t len; size_t off; size_t total; uint16_t msg_seq = 0; uint32_t frag_off = 0, frag_len = 0; };
std::vector<HsMsg> parse_hs_msgs(const unsigned char *body, size_t n, bool dtls);
const char *hs_type_name(int t);

struct PairCfg {
    // what both endpoints are built from
    uint32_t version = 0;               // single version for both (0 = use lists below)
    std::vector<uint32_t> versions_c, versions_s;
    std::vector<uint16_t> suites;       // client's offer
    int server_identity = KK_RSA2048;
    int client_identity = KK_NONE;      // != NONE => client auth
    bool client_auth = false;
    bool psk = false;
    bool tickets = false;               // server loads ticket keys, client offers ticket extension
    bool tls13_ext_psk = false;
    int cb_c = CB_ALLOW_ALL, cb_s = CB_ALLOW_ALL;
    int cb_allow_alert_c = 0;
    unsigned client_ca_mask = 0xffffffff;  // default: trust the CA of the server's identity kind (set in build)
    bool client_trusts_server = true;
    bool forge_server_cert = false;        // server presents a certificate whose issuer signature is invalid
    bool forge_client_cert = false;
    bool client_cert_is_ca = false;        // byzantine client: presents the public CA certificate as its own (it holds no matching key)
    int ocsp = 0;                          // OCSP stapling: the server holds a response (1 good, 2 revoked) and the client asks for it
    bool chain = false;                    // both identities are presented as leaf + issuer certificate (two chain elements on the wire)
    int send_sni = 0;                      // the client sends its expected name as server_name (2: + ALPN, 3: + a private extension)
    int max_frag = 0;                      // client requests max_fragment_length
    int forge_mode = 0;                    // 0: a bit of the issuer's signature flipped; 1: issuer name altered + the trusted CA certificate's own signature bytes copied in
    std::string expected_name;
    int max_early_data = 0;
    int ems_c = 0, ems_s = 0;
    bool fallback_scsv = false;
    std::vector<uint16_t> groups_c, groups_s;
    int key_shares = 0;
    std::vector<uint16_t> sigalgs_c, sigalgs_s;
    int ticket_key_id = 1;
    bool dtls() const;
};
PairCfg paircfg_from_plan(const Plan &p);
void paircfg_describe(const PairCfg &pc, std::map<std::string, std::string> &out);

typedef std::function<void(Record &rec, std::vector<Bytes> &out)> RecordFilter;

class TlsWorld {
  public:
    PairCfg pc;
    sslKeys_t *skeys = nullptr, *ckeys = nullptr;
    sslSessionId_t *sid = nullptr;
    std::unique_ptr<MxEndpoint> cli, srv;
    // wire
    Bytes emit_buf[2];              // bytes emitted but not yet a whole record
    std::deque<Bytes> wire[2];      // units queued for delivery (each is delivered in >=1 feed calls)
    int rec_index[2] = { 0, 0 };
    bool stopped[2] = { false, false };
    std::vector<Record> captured[2];   // every honest record as emitted
    RecordFilter filter;
    std::function<size_t(int dir, size_t avail)> chunker;   // how many bytes to deliver next (default: all)
    std::function<size_t(int dir, size_t avail)> drainer;   // how many bytes to accept from an endpoint's outdata (default: all)
    uint64_t steps = 0;
    Fingerprint fp;
    int setup_rc = 0;
    bool own_keys = true;           // false: keys and session id belong to the caller (multi-client histories, C14)
    void adopt(sslKeys_t *sk, sslKeys_t *ck, sslSessionId_t *s, const PairCfg &c) { skeys = sk; ckeys = ck; sid = s; pc = c; own_keys = false; }
    bool record_granular = false;   // TLS: hand each queued unit (record) to the receiver in a feed call of its own
    bool keep_logs = false;         // endpoints record inbound/outbound bytes and application actions (C18)

    ~TlsWorld();
    bool setup(const PairCfg &c);                 // load keys (both sides)
    bool connect(bool use_sid = true);            // new client+server sessions (client hello is queued)
    MxEndpoint &ep(int dir_sender) { return dir_sender == DIR_C2S ? *cli : *srv; }
    MxEndpoint &peer(int dir_sender) { return dir_sender == DIR_C2S ? *srv : *cli; }
    // move bytes: collect output of both endpoints, pass through the filter, deliver. Returns true if anything moved.
    bool pump_once();
    int pump(int max_steps = 2000);               // until quiescent; returns steps
    void collect(int dir);                        // endpoint -> wire (through filter)
    bool deliver(int dir);                        // wire -> peer (one unit)
    void inject(int dir, const Bytes &b) { wire[dir].push_back(b); }
    bool handshake(int max_steps = 2000);         // pump until both complete or stuck
    void close_sessions();
    void teardown();                              // sessions + keys + sid
    uint64_t fingerprint();
};

Bytes make_record(uint8_t type, uint16_t ver, const Bytes &body, bool dtls = false, uint16_t epoch = 0, uint64_t seq = 0);
Bytes tagged_payload(int sender, int idx, size_t len);   // unique, attributable application payload
