// SMOKE: fault-free handshakes + data for every version/suite family. Not a claimed property:
// it is the foundation gate (Appendix C step 1) and the determinism reference.
#include "driver.h"
#include "world.h"

static const uint16_t SMOKE_SUITES12[] = {
    TLS_RSA_WITH_AES_128_CBC_SHA, TLS_RSA_WITH_AES_256_CBC_SHA256, TLS_RSA_WITH_AES_128_GCM_SHA256,
    TLS_ECDHE_RSA_WITH_AES_128_CBC_SHA, TLS_ECDHE_RSA_WITH_AES_256_GCM_SHA384, TLS_ECDHE_ECDSA_WITH_AES_128_CBC_SHA256,
    TLS_ECDHE_ECDSA_WITH_AES_128_GCM_SHA256, TLS_ECDH_ECDSA_WITH_AES_128_CBC_SHA, TLS_ECDH_RSA_WITH_AES_128_GCM_SHA256,
    TLS_PSK_WITH_AES_128_CBC_SHA, TLS_PSK_WITH_AES_128_CBC_SHA256,
};

static Plan smoke_gen(uint64_t seed, int tier, uint64_t index) {
    (void) tier;
    Rng r(seed);
    Plan p;
    int ver = (int) (index % 5);
    p.cfg["ver"] = ver;
    if (ver == 2) {
        p.cfg["suite"] = all_tls13_suites()[r.below(3)];
        static const int ids[] = { KK_RSA2048, KK_EC256, KK_EC384, KK_ED25519 };
        p.cfg["sid_kind"] = ids[r.below(4)];
    } else {
        uint16_t s;
        do { s = SMOKE_SUITES12[r.below(sizeof SMOKE_SUITES12 / sizeof SMOKE_SUITES12[0])]; } while ((ver == 0 || ver == 3) && suite_min_tls12(s));
        p.cfg["suite"] = s;
    }
    if (r.chance(1, 4) && p.get("suite") != TLS_PSK_WITH_AES_128_CBC_SHA && p.get("suite") != TLS_PSK_WITH_AES_128_CBC_SHA256) { p.cfg["cauth"] = r.chance(1, 2) ? KK_RSA2048 : KK_EC256; }
    p.cfg["tickets"] = (ver < 3) && r.chance(1, 3);   // DTLS + RFC 5077 tickets: resumed handshake stalls (client ignores the CCS while "in limbo"), see DESIGN
    p.cfg["resume"] = r.chance(1, 2);
    int n = (int) r.range(1, 4);
    static const int lens[] = { 1, 1, 15, 16, 17, 255, 256, 1000, 4096, 16383, 16384 };
    for (int i = 0; i < n; i++) { p.ops.push_back(Op("send", (int64_t) r.below(2), lens[r.below(11)])); }
    return p;
}

static RunResult smoke_exec(const Plan &p) {
    RunResult res;
    vsim_run_reset(p.seed);
    sim_global_open();
    {
        TlsWorld w;
        PairCfg pc = paircfg_from_plan(p);
        if (!w.setup(pc)) { res.harness_error = true; res.detail = "setup failed rc=" + std::to_string(w.setup_rc); sim_global_close(); return res; }
        int rounds = p.get("resume") ? 2 : 1;
        for (int round = 0; round < rounds; round++) {
            if (!w.connect()) { res.violate("smoke_connect_failed", ver_name(pc.version), "connect failed"); break; }
            bool ok = w.handshake();
            if (!ok) {
                res.violate("smoke_handshake_failed", std::string(ver_name(pc.version)) + "," + suite_name((uint16_t) p.get("suite")),
                            "handshake did not complete: cli_complete=" + std::to_string(w.cli->complete) + " srv_complete=" + std::to_string(w.srv->complete) +
                            " cli_err=" + std::to_string(w.cli->first_error) + " srv_err=" + std::to_string(w.srv->first_error) + " round=" + std::to_string(round));
                break;
            }
            res.count(std::string("completed.") + ver_name(w.cli->negotiated_version()));
            if (round == 1) { res.count(w.srv->is_resumed() ? "resumed" : "not_resumed"); }
            int idx = 0;
            std::vector<Bytes> sent[2];
            for (auto &op : p.ops) {
                if (op.k != "send") { continue; }
                int dir = (int) (op.a & 1);
                size_t len = (size_t) op.b;
                if (pc.dtls() && len > 1000) { len = 1000; }
                Bytes pl = tagged_payload(dir, idx++, len);
                int rc = w.ep(dir).app_send(pl.data(), pl.size());
                if (rc < 0) { res.violate("smoke_send_failed", ver_name(pc.version), "app_send rc=" + std::to_string(rc) + " len=" + std::to_string(len)); break; }
                sent[dir].push_back(pl);
                w.pump();
            }
            for (int dir = 0; dir < 2 && !res.violation; dir++) {
                Bytes s, d;
                for (auto &x : sent[dir]) { s.insert(s.end(), x.begin(), x.end()); }
                for (auto &x : w.peer(dir).delivered) { d.insert(d.end(), x.begin(), x.end()); }
                if (s != d) { res.violate("smoke_data_mismatch", ver_name(pc.version), "sent " + std::to_string(s.size()) + " delivered " + std::to_string(d.size())); }
            }
            w.cli->app_close(); w.pump();
            w.close_sessions();
        }
        res.fingerprint = w.fingerprint();
        w.teardown();
    }
    sim_global_close();
    res.nontrivial = !res.violation;
    if (vsim_alloc_live_blocks() != 0) {
        vsim_block_info_t bi[4]; int n = vsim_alloc_live_list(bi, 4);
        std::string d;
        for (int i = 0; i < n; i++) { d += std::string(bi[i].func ? bi[i].func : "?") + ":" + std::to_string(bi[i].line) + " "; }
        res.violate("smoke_leak", d, "live blocks at end: " + std::to_string(vsim_alloc_live_blocks()) + " " + d);
    }
    res.sim_ms = 0;
    return res;
}

static ModuleRegistrar reg({ "SMOKE", "proto", "exploration", "fault-free handshake+data per version/suite; non-trivial = completed and data round-tripped",
                             smoke_gen, smoke_exec, 200, 2000, 60, 300, { "core", "crypto", "matrixssl" }, { "transport", "clock", "entropy", "allocator front-end" }, {}, "asan", nullptr, false });
