// C02 - on an established connection the delivered stream is an exact prefix of what the peer sent,
// whatever an on-path attacker does to the ciphertext; TLS: any modification of a protected record is fatal.
#include "proto.h"

static bool is_prefix(const Bytes &d, const Bytes &s) { return d.size() <= s.size() && std::equal(d.begin(), d.end(), s.begin()); }
static Bytes concat(const std::vector<Bytes> &v) { Bytes o; for (auto &x : v) { o.insert(o.end(), x.begin(), x.end()); } return o; }

static const int LENS[] = { 1, 2, 15, 16, 17, 31, 32, 33, 255, 256, 257, 1000, 4096, 16383, 16384, 16385, 20000 };
static const char *MUT[] = { "flip", "flip", "flip", "flip", "trunc", "extend", "setlen", "type", "ver", "drop", "dup", "swapnext", "epoch", "seq", "glue_ccs" };
static const char *INJ[] = { "replay", "replay", "reflect", "cross", "relabel", "garbage", "plain23" };

static Plan c02_gen(uint64_t seed, int tier, uint64_t index) {
    (void) tier; (void) index;
    Rng r(seed);
    Plan p;
    gen_pair_cfg(r, p, true);
    if (r.chance(1, 3)) { p.cfg["sibling"] = 1; }
    if (r.chance(1, 4) && p.get("ver") != 2 && !(p.get("ver") >= 3 && p.get("tickets"))) { p.cfg["resume"] = 1; }
    p.ops.push_back(Op("hs"));
    int pre = (int) r.below(4);
    for (int i = 0; i < pre; i++) { p.ops.push_back(Op("send", (int64_t) r.below(2), LENS[r.below(sizeof LENS / sizeof LENS[0])], (int64_t) r.below(2))); }
    if (pre && r.chance(2, 3)) { p.ops.push_back(Op("pump")); }
    int nf = 1 + (int) r.below(2);
    for (int f = 0; f < nf; f++) {
        int dir = (int) r.below(2);
        if (r.chance(3, 4)) {
            std::string m = MUT[r.below(sizeof MUT / sizeof MUT[0])];
            p.ops.push_back(Op("arm", dir, (int64_t) r.below(1u << 20), (int64_t) r.below(1u << 16), 0, m));
            int n = 1 + (int) r.below(3);   // the mutated record and some honest followers
            for (int i = 0; i < n; i++) { p.ops.push_back(Op("send", dir, LENS[r.below(12)], (int64_t) r.below(2))); }
        } else {
            p.ops.push_back(Op("inject", dir, (int64_t) r.below(1000), (int64_t) r.below(50), (int64_t) (r.below(3) * 2 + r.below(2)), INJ[r.below(sizeof INJ / sizeof INJ[0])]));
        }
        if (r.chance(1, 2)) { p.ops.push_back(Op("pump")); }
    }
    // continuation: the honest peer keeps talking (it does not know), both directions
    int post = 1 + (int) r.below(3);
    for (int i = 0; i < post; i++) { p.ops.push_back(Op("send", (int64_t) r.below(2), LENS[r.below(12)])); }
    p.ops.push_back(Op("pump"));
    return p;
}

// deterministic sweep: every bit of one short protected record, per record-protection family and version
struct Fam { int ver; uint16_t suite; int sid; };
static const Fam FAMS[] = {
    { 0, TLS_RSA_WITH_AES_128_CBC_SHA, 0 }, { 1, TLS_RSA_WITH_AES_128_CBC_SHA, 0 }, { 1, TLS_RSA_WITH_AES_256_CBC_SHA256, 0 },
    { 1, TLS_ECDHE_RSA_WITH_AES_256_CBC_SHA384, 0 }, { 1, TLS_RSA_WITH_AES_128_GCM_SHA256, 0 }, { 1, TLS_ECDHE_ECDSA_WITH_AES_256_GCM_SHA384, 0 },
    { 2, TLS_AES_128_GCM_SHA256, KK_EC256 }, { 2, TLS_AES_256_GCM_SHA384, KK_EC256 }, { 2, TLS_CHACHA20_POLY1305_SHA256, KK_EC256 },
    { 3, TLS_RSA_WITH_AES_128_CBC_SHA, 0 }, { 4, TLS_RSA_WITH_AES_128_CBC_SHA256, 0 }, { 4, TLS_RSA_WITH_AES_128_GCM_SHA256, 0 },
};
static std::vector<Plan> c02_fixed(int tier) {
    std::vector<Plan> v;
    size_t nf = sizeof FAMS / sizeof FAMS[0];
    // 1..4 forged plaintext CCS records coalesced in front of an honest application record, per family and direction
    for (size_t f = 0; f < nf; f++) {
        for (int n = 0; n < 4; n++) {
            for (int dir = 0; dir < 2; dir++) {
                Plan p; p.seed = 58000 + f * 100 + (uint64_t) (n * 2 + dir);
                p.cfg["ver"] = FAMS[f].ver; p.cfg["suite"] = FAMS[f].suite; if (FAMS[f].sid) { p.cfg["sid_kind"] = FAMS[f].sid; }
                p.ops.push_back(Op("hs")); p.ops.push_back(Op("send", dir, 40)); p.ops.push_back(Op("pump"));
                p.ops.push_back(Op("arm", dir, n, 0, 0, "glue_ccs")); p.ops.push_back(Op("send", dir, 100 + 7 * n)); p.ops.push_back(Op("send", dir, 33)); p.ops.push_back(Op("pump"));
                v.push_back(p);
                // ... and with the following honest record in the same read as well
                Plan q; q.seed = 58500 + f * 100 + (uint64_t) (n * 2 + dir);
                q.cfg["ver"] = FAMS[f].ver; q.cfg["suite"] = FAMS[f].suite; if (FAMS[f].sid) { q.cfg["sid_kind"] = FAMS[f].sid; }
                q.ops.push_back(Op("hs")); q.ops.push_back(Op("send", dir, 40)); q.ops.push_back(Op("pump"));
                q.ops.push_back(Op("arm", dir, n, 1, 0, "glue_ccs")); q.ops.push_back(Op("send", dir, 100 + 7 * n)); q.ops.push_back(Op("send", dir, 33)); q.ops.push_back(Op("pump")); q.ops.push_back(Op("send", dir, 21)); q.ops.push_back(Op("pump"));
                v.push_back(q);
            }
        }
    }
    // DTLS anti-replay window (64 records): a run of withheld datagrams, the next one delivered, then replayed - at and around the window
    // sizes - plus replays of the records in front of the gap
    for (size_t f = 9; f < nf; f++) {
        static const int GAPS[] = { 1, 3, 30, 31, 32, 33, 40, 62, 63, 64, 65, 100 };
        for (size_t gi = 0; gi < sizeof GAPS / sizeof GAPS[0]; gi++) {
            for (int dir = 0; dir < 2; dir++) {
                if (!tier && gi % 2 == (size_t) dir) { continue; }
                for (int pre = 0; pre < 2; pre++) {         // pre = 0: the run of losses starts with the very first application record
                Plan p; p.seed = 57000 + f * 100 + (uint64_t) (gi * 4) + (uint64_t) dir * 2 + (uint64_t) pre;
                p.cfg["ver"] = FAMS[f].ver; p.cfg["suite"] = FAMS[f].suite; p.cfg["pmtu"] = 1500;
                p.ops.push_back(Op("hs"));
                if (pre) { p.ops.push_back(Op("send", dir, 40)); p.ops.push_back(Op("send", 1 - dir, 41)); p.ops.push_back(Op("pump")); }
                for (int i = 0; i < GAPS[gi]; i++) { p.ops.push_back(Op("arm", dir, 0, 0, 0, "drop")); p.ops.push_back(Op("send", dir, 20 + i % 7)); }
                p.ops.push_back(Op("send", dir, 77)); p.ops.push_back(Op("pump"));
                p.ops.push_back(Op("inject", dir, -1, 0, 0, "replay")); p.ops.push_back(Op("pump"));                       // the record that made the jump
                p.ops.push_back(Op("inject", dir, -(int64_t) (GAPS[gi] + 2), 0, 0, "replay")); p.ops.push_back(Op("pump"));   // the last record delivered in front of the gap
                p.ops.push_back(Op("send", dir, 78)); p.ops.push_back(Op("pump"));
                p.ops.push_back(Op("inject", dir, -2, 0, 0, "replay")); p.ops.push_back(Op("inject", dir, -1, 0, 0, "replay")); p.ops.push_back(Op("pump"));
                v.push_back(p);
                }
            }
        }
    }
    for (size_t f = 0; f < nf; f++) {
        // a 3-byte payload: header 5/13 + explicit IV/nonce + body + MAC/tag + pad <= ~80 bytes -> <= 640 bits
        int maxbits = tier ? 640 : 0;
        int step = 1;
        for (int bit = 0; bit < maxbits; bit += step) {
            Plan p; p.seed = 50000 + f * 1000 + (uint64_t) bit;
            p.cfg["ver"] = FAMS[f].ver; p.cfg["suite"] = FAMS[f].suite;
            if (FAMS[f].sid) { p.cfg["sid_kind"] = FAMS[f].sid; }
            p.ops.push_back(Op("hs"));
            p.ops.push_back(Op("send", 0, 3));
            p.ops.push_back(Op("pump"));
            p.ops.push_back(Op("arm", 0, bit, 0, 0, "flipbit"));
            p.ops.push_back(Op("send", 0, 3));
            p.ops.push_back(Op("send", 0, 5));
            p.ops.push_back(Op("pump"));
            v.push_back(p);
        }
        // header field edits (type, version) on every family in both tiers
        for (int k = 0; k < 6; k++) {
            Plan p; p.seed = 70000 + f * 100 + (uint64_t) k;
            p.cfg["ver"] = FAMS[f].ver; p.cfg["suite"] = FAMS[f].suite;
            if (FAMS[f].sid) { p.cfg["sid_kind"] = FAMS[f].sid; }
            p.ops.push_back(Op("hs"));
            p.ops.push_back(Op("send", k & 1, 40));
            p.ops.push_back(Op("pump"));
            p.ops.push_back(Op("arm", k & 1, k, 0, 0, k < 3 ? "type" : "ver"));
            p.ops.push_back(Op("send", k & 1, 40));
            p.ops.push_back(Op("send", k & 1, 7));
            p.ops.push_back(Op("pump"));
            v.push_back(p);
        }
    }
    return v;
}

static RunResult c02_exec(const Plan &p) {
    RunResult res;
    vsim_run_reset(p.seed);
    sim_global_open();
    {
        ProtoRun pr(p);
        pr.run();
        if (pr.setup_failed) { res.harness_error = true; res.detail = pr.setup_detail + " cfg=" + cfg_label(p); }
        else if (!pr.obs.hs_done && !pr.obs.tampered[0] && !pr.obs.tampered[1]) {
            res.harness_error = true; res.detail = "fault-free handshake did not complete, cfg=" + cfg_label(p);
        } else {
            ProtoObs &o = pr.obs;
            std::string ver = ver_name(pr.pc.version);
            std::string fam = suite_is_aead((uint16_t) p.get("suite")) ? (p.get("suite") == TLS_CHACHA20_POLY1305_SHA256 ? "chacha" : "gcm") : "cbc";
            bool dtls = pr.pc.dtls();
            bool any_fault = false;
            for (int dir = 0; dir < 2 && !res.violation; dir++) {
                MxEndpoint &rcv = pr.w.peer(dir);
                int role = pr.role_of_receiver(dir);
                Bytes S = concat(o.sent[dir]), D = concat(rcv.delivered);
                std::string ctx = fam + "," + ver + "," + (o.tampered[dir] ? o.tamper_kind[dir] : "none");
                if (o.tampered[dir] && o.tamper_consumed[dir]) { any_fault = true; }
                if (dtls) {
                    std::vector<int> used(o.sent[dir].size(), 0);
                    for (auto &c : rcv.delivered) {
                        bool found = false, dup = false;
                        for (size_t i = 0; i < o.sent[dir].size(); i++) { if (o.sent[dir][i] == c) { if (!used[i]) { used[i] = 1; found = true; break; } dup = true; } }
                        if (!found) {
                            if (dup) { res.violate("dtls_duplicate_delivery", ctx, "a datagram was delivered to the application twice"); }
                            else { res.violate("wrong_data_delivered", ctx, "delivered datagram equals no datagram the peer sent (" + std::to_string(c.size()) + " bytes)"); }
                            break;
                        }
                    }
                    continue;
                }
                if (!is_prefix(D, S)) {
                    res.violate("wrong_data_delivered", ctx, "delivered stream is not a prefix of the sent stream: delivered " + std::to_string(D.size()) + " sent " + std::to_string(S.size()));
                    break;
                }
                if (!o.fault_fired[0] && !o.fault_fired[1] && !o.tampered[dir] && !o.tampered[1 - dir] && !o.death[0].dead && !o.death[1].dead && D != S) {
                    res.violate("faultfree_data_lost", fam + "," + ver, "no fault injected but delivered " + std::to_string(D.size()) + " of " + std::to_string(S.size()) + " bytes");
                    break;
                }
                if (o.tampered[dir] && o.tamper_consumed[dir] && o.tamper_receiver_complete[dir]) {
                    size_t after = rcv.delivered.size() - o.delivered_before_tamper[dir];
                    // inserted plaintext change_cipher_spec records: TLS 1.3 endpoints of this library ignore them at any time (RFC 8446 5 only lets them
                    // be dropped until the peer's Finished); that tolerance leaves the delivered stream intact, which is all this property asks
                    bool ccs_only = pr.pc.version == v_tls_1_3 && (o.tamper_kind[dir] == "glued_ccs" || o.tamper_kind[dir] == "inject_ccs");
                    if (ccs_only) { res.count("probe.tls13_ccs_tolerated_after_handshake"); }
                    if (after > 0 && !ccs_only) {
                        res.violate("data_after_tamper", ctx, std::to_string(after) + " chunk(s) delivered from or after the first tampered record (" + o.tamper_kind[dir] + ")");
                        break;
                    }
                    if (o.tamper_is_modification[dir]) {
                        if (!o.death[role].dead) {
                            res.violate("modified_record_accepted", ctx, "a protected record was modified (" + o.tamper_kind[dir] + ") and consumed, but the receiver neither failed nor closed");
                            break;
                        }
                        if (o.out_bytes_after_tamper[dir] == 0 && o.death[role].kind == "error") {
                            res.count("probe.death_without_alert_bytes");
                        }
                    }
                }
            }
            res.nontrivial = any_fault && o.hs_done;
            res.fingerprint = pr.fingerprint();
            for (auto &kv : o.counters) { res.counters[kv.first] += kv.second; }
            res.states = o.states;
            res.count(std::string("family.") + fam + "." + ver);
        }
    }
    sim_global_close();
    return res;
}

static ModuleRegistrar reg({ "C02", "proto", "exploration",
    "seeded plans: swarm cfg (version x CBC/GCM/ChaCha suite x auth x resumption) x established connection x tagged payloads from a boundary length set in both directions x "
    "1-2 attacker edits (bit flip anywhere but the length field, truncate, extend, length-field edit, type/version/epoch/sequence edit, drop, duplicate, swap, replay, reflection, "
    "cross-session, relabel, garbage) x honest continuation; fixed plans: type/version header edits per family (both tiers) and every bit of one short protected record per family (thorough). "
    "non-trivial = a tampered unit was consumed by a receiver on an established connection; distinct = distinct history fingerprint",
    c02_gen, c02_exec, 5000, 120000, 75, 1200,
    { "core (incl. osdep.c)", "crypto", "matrixssl (client and server sessions)" },
    { "transport (in-memory stream/datagram link)", "attacker", "applications", "clock", "entropy (/dev/urandom)", "allocator front-end" },
    { "death is demanded only for modifications that keep the record framing (length-field edits desynchronise framing and are judged by the prefix oracle only)",
      "DTLS: modified records may be silently discarded" },
    "asan", c02_fixed, false });
