// C14 - a server resumes only with its own, unexpired, untampered, un-invalidated session state, with matching
// version / suite / extended-master-secret, and the resumed connection uses the original secret.
// Histories of connections over several clients, one server key set (plus a foreign one), the simulated clock,
// cache pressure, ticket-key rotation and byte-level edits of the clients' durable resumption state;
// reference model = map of everything this server issued.  Only "completed as resumed" is judged: a server that
// declines to resume is never flagged.
#include "driver.h"
#include <functional>
#include "world.h"
#include <memory>
#include "peek.h"
#include <algorithm>

static const int NCLIENTS = 3;
static const int64_t LIFE_S = 86400;          // SSL_SESSION_ENTRY_LIFE (cache entries and RFC 5077 tickets)
static const int64_t LIFE13_S = 360;          // TLS_1_3_TICKET_LIFETIME advertised by the server

struct Issued {
    int server = 0; int64_t time_s = 0; uint32_t version = 0; uint32_t suite = 0; int ems = 0; uint64_t ms = 0;
    bool invalidated = false; int ticket_key = 0; std::string mech;
};

struct Client {
    sslKeys_t *keys = nullptr; sslSessionId_t *sid = nullptr;
    bool dirty = false;   // the stored state was edited / forged / comes from the foreign server / is presented under other parameters: a refusal or failure is then legitimate
    int ver = 1; uint16_t suite = 0; int ems = 0; bool tickets = false; bool multi = false;   // multi: offer the whole suite family, not just one suite
};

struct Hist {
    const Plan &plan;
    sslKeys_t *skeys[2] = { nullptr, nullptr };         // server 0 (under test) and a foreign server 1 with other ticket keys
    std::set<int> ticket_keys[2];                       // loaded ticket key ids per server
    std::vector<int> key_order[2];                      // in load order: the first one mints new tickets
    std::string last_edit;                               // most recent edit applied to a client's stored state (signature context)
    Client cl[NCLIENTS];
    std::map<std::string, Issued> issued;               // key: mechanism + ":" + identifier bytes
    int server_kind = KK_RSA2048;
    std::string viol_cls, viol_ctx, viol_detail;
    std::map<std::string, int64_t> counters;
    std::vector<std::string> states;
    Fingerprint fp;
    bool setup_failed = false; std::string setup_detail;
    std::vector<sslSessionId_t *> held_tmp_sids;         // session id objects owned by half-open connections (freed at teardown)
    std::vector<std::unique_ptr<TlsWorld> > held;        // connections kept open across later operations ("hold" ... "release")
    void release(size_t i);
    void forge_halfopen(int c, const Op &op);
    int64_t now_s() { return vsim_mono_ms() / 1000; }
    explicit Hist(const Plan &p) : plan(p) {}
    void fail(const std::string &c, const std::string &x, const std::string &d) { if (viol_cls.empty()) { viol_cls = c; viol_ctx = x; viol_detail = d; } }
    bool setup();
    void teardown();
    void connect(int c, int server, const Op &op, const std::function<void()> &mid = nullptr);
    void edit(int c, const Op &op);
    void graft(int dst, int src, const Op &op);
    void run();
};

static uint16_t pick_suite(Rng &r, int ver, int kind) {
    static const uint16_t RSA11[] = { TLS_RSA_WITH_AES_128_CBC_SHA, TLS_RSA_WITH_AES_256_CBC_SHA, TLS_ECDHE_RSA_WITH_AES_128_CBC_SHA };
    static const uint16_t RSA12[] = { TLS_RSA_WITH_AES_128_GCM_SHA256, TLS_ECDHE_RSA_WITH_AES_256_GCM_SHA384, TLS_RSA_WITH_AES_256_CBC_SHA256, TLS_RSA_WITH_AES_128_CBC_SHA };
    static const uint16_t EC11[] = { TLS_ECDHE_ECDSA_WITH_AES_128_CBC_SHA, TLS_ECDHE_ECDSA_WITH_AES_256_CBC_SHA, TLS_ECDH_ECDSA_WITH_AES_128_CBC_SHA };
    static const uint16_t EC12[] = { TLS_ECDHE_ECDSA_WITH_AES_128_GCM_SHA256, TLS_ECDHE_ECDSA_WITH_AES_128_CBC_SHA256, TLS_ECDHE_ECDSA_WITH_AES_128_CBC_SHA, TLS_ECDH_ECDSA_WITH_AES_128_GCM_SHA256 };
    if (ver == 2) { return all_tls13_suites()[r.below(3)]; }
    if (kind == KK_RSA2048) { return ver == 1 ? RSA12[r.below(4)] : RSA11[r.below(3)]; }
    return ver == 1 ? EC12[r.below(4)] : EC11[r.below(3)];
}

static Plan c14_gen(uint64_t seed, int tier, uint64_t index) {
    (void) index;
    Rng r(seed);
    Plan p;
    p.cfg["kind"] = r.chance(1, 2) ? KK_RSA2048 : KK_EC256;
    int n = 3 + (int) r.below(tier ? 30 : 12);
    static const int64_t ADV[] = { 1000, 60000, 200000, 359000, 361000, 3600000, 43200000, 64800000, 86399000, 86401000, 2LL * 86400000, 25LL * 86400000, 26LL * 86400000, 49LL * 86400000, 50LL * 86400000, 60LL * 86400000 };
    for (int i = 0; i < n; i++) {
        int c = (int) r.below(NCLIENTS);
        switch (r.below(16)) {
        case 0: case 1: case 2: p.ops.push_back(Op("full", c, (int64_t) r.below(3), (int64_t) r.next() % 100000, (int64_t) r.below(8))); break;     // d: bit0 tickets, bit1 EMS off, bit2 offer the suite family     // a: client, b: version, c: suite seed, d: flags (tickets, ems off)
        case 3: case 4: case 5: case 6: p.ops.push_back(Op("resume", c, (int64_t) r.below(5))); break;                                              // b: 0 keep params, 1 other suite, 2 other version, 3 flip ems
        case 7: p.ops.push_back(Op("advance", (int64_t) ADV[r.below(sizeof ADV / sizeof ADV[0])])); break;
        case 8: p.ops.push_back(Op("fatal", c, (int64_t) r.below(2))); break;                                                                       // resume (or connect) and have a fatal alert hit the session
        case 9: p.ops.push_back(Op("fill", (int64_t) (5 + r.below(40)))); break;
        case 10: if (r.chance(1, 4)) { p.ops.push_back(Op("midrm", c, (int64_t) r.below(3), (int64_t) r.below(3), (int64_t) r.below(2) * 2)); p.ops.push_back(Op("resume", c, 0)); break; }
                 p.ops.push_back(Op("addkey", (int64_t) (2 + r.below(3)))); break;
        case 11: p.ops.push_back(Op("rmkey", (int64_t) (1 + r.below(4)))); break;
        case 12: if (r.chance(1, 2)) { p.ops.push_back(Op("foreign", c)); } else { p.ops.push_back(Op("halfopen", c, (int64_t) r.below(2), (int64_t) r.next() % 100000, (int64_t) r.below(8))); p.ops.push_back(Op("resume", c, 0)); } break;                                                                                          // full handshake with the foreign server: the sid now holds its ticket/psk
        case 13: if (r.chance(1, 4)) { p.ops.push_back(Op("nested", c, (int64_t) r.below(NCLIENTS), (int64_t) r.below(2), (int64_t) r.below(2) * 2)); p.ops.push_back(Op("graft", c, (int64_t) r.below(NCLIENTS), 1)); p.ops.push_back(Op("resume", c, 0)); break; }
                 if (r.chance(1, 2)) { p.ops.push_back(Op("graft", c, (int64_t) r.below(NCLIENTS), (int64_t) r.below(2))); p.ops.push_back(Op("resume", c, 0)); break; }
        /* fall through */
        case 14: p.ops.push_back(Op("edit", c, (int64_t) r.below(9), (int64_t) r.below(4096), (int64_t) r.below(256))); break;
        case 15: if (r.chance(1, 2)) { p.ops.push_back(Op("dirty", c)); } else if (r.chance(2, 3)) { p.ops.push_back(Op("hold", c, 0)); } else { p.ops.push_back(Op("release", (int64_t) r.below(4))); } break;                                                                                            // resume and delete both sessions without closure
        }
    }
    // make sure something tries to resume at the end
    p.ops.push_back(Op("resume", (int64_t) r.below(NCLIENTS), 0));
    return p;
}

// aimed histories: one identifier, one clock jump / edit, one resume
static std::vector<Plan> c14_fixed(int tier) {
    (void) tier;
    std::vector<Plan> v;
    static const int64_t JUMPS[] = { 86399000, 86401000, 2LL * 86400000, 24LL * 86400000, 26LL * 86400000, 40LL * 86400000, 49LL * 86400000, 51LL * 86400000, 361000, 3600000 };
    for (int kind = 0; kind < 2; kind++) {
        for (int ver = 0; ver < 3; ver++) {
            for (int tk = 0; tk < 2; tk++) {
                for (size_t j = 0; j < sizeof JUMPS / sizeof JUMPS[0]; j++) {
                    Plan p; p.seed = 140000 + (uint64_t) (((kind * 3 + ver) * 2 + tk) * 16) + j;
                    p.cfg["kind"] = kind ? KK_EC256 : KK_RSA2048;
                    p.ops.push_back(Op("full", 0, ver, 7, tk));
                    p.ops.push_back(Op("advance", JUMPS[j]));
                    p.ops.push_back(Op("resume", 0, 0));
                    v.push_back(p);
                }
                for (int e = 0; e < 9; e++) {
                    Plan p; p.seed = 150000 + (uint64_t) (((kind * 3 + ver) * 2 + tk) * 16 + e);
                    p.cfg["kind"] = kind ? KK_EC256 : KK_RSA2048;
                    p.ops.push_back(Op("full", 0, ver, 7, tk));
                    p.ops.push_back(Op("edit", 0, e, 13 + e * 7, 0x41));
                    p.ops.push_back(Op("resume", 0, 0));
                    v.push_back(p);
                }
                if (tk && ver < 2) {
                    // every byte of the ticket's name/IV/first body block with masks that toggle between related suite ids, flags and versions
                    static const int MASKS[] = { 0x01, 0x1a, 0x11, 0x0b, 0x80 };
                    for (int byte = 0; byte < 48; byte++) {
                        for (int m = 0; m < 5; m++) {
                            Plan p; p.seed = 157000 + (uint64_t) ((((kind * 3 + ver) * 48 + byte) * 5) + m);
                            p.cfg["kind"] = kind ? KK_EC256 : KK_RSA2048;
                            p.ops.push_back(Op("full", 0, ver, 7, 1 | 4));
                            p.ops.push_back(Op("edit", 0, byte < 16 ? 3 : byte < 32 ? 4 : 5, byte % 16, MASKS[m]));
                            p.ops.push_back(Op("resume", 0, 0));
                            v.push_back(p);
                        }
                    }
                }
                {   // sliding-window check: the identifier is used (resumed) within its lifetime, then presented again after its lifetime, counted from issue, has passed
                    static const int64_t AB[][2] = { { 64800000, 43200000 }, { 43200000, 64800000 }, { 82800000, 7200000 }, { 200000, 200000 }, { 86000000, 86000000 } };
                    for (int k = 0; k < 5; k++) {
                        Plan p; p.seed = 154000 + (uint64_t) ((((kind * 3 + ver) * 2 + tk) * 8) + k);
                        p.cfg["kind"] = kind ? KK_EC256 : KK_RSA2048;
                        p.ops.push_back(Op("full", 0, ver, 7, tk)); p.ops.push_back(Op("advance", AB[k][0])); p.ops.push_back(Op("resume", 0, 0));
                        p.ops.push_back(Op("advance", AB[k][1])); p.ops.push_back(Op("resume", 0, 0));
                        if (k == 4) { p.ops.push_back(Op("advance", AB[k][1])); p.ops.push_back(Op("resume", 0, 0)); }
                        v.push_back(p);
                    }
                }
                if (ver < 2) {   // TLS <= 1.2 id / ticket offered together with TLS 1.3
                    Plan p; p.seed = 152000 + (uint64_t) ((kind * 3 + ver) * 2 + tk);
                    p.cfg["kind"] = kind ? KK_EC256 : KK_RSA2048;
                    p.ops.push_back(Op("full", 0, ver, 7, tk)); p.ops.push_back(Op("resume", 0, 4)); p.ops.push_back(Op("resume", 0, 0));
                    v.push_back(p);
                }
                if (tk) {   // every ticket key withdrawn between the two server flights of a ticket-issuing handshake, then a resumption with whatever the client got
                    Plan p; p.seed = 155000 + (uint64_t) ((kind * 3 + ver) * 2);
                    p.cfg["kind"] = kind ? KK_EC256 : KK_RSA2048;
                    p.ops.push_back(Op("midrm", 0, 0, ver, 0)); p.ops.push_back(Op("resume", 0, 0)); p.ops.push_back(Op("full", 1, ver, 7, 1)); p.ops.push_back(Op("resume", 1, 0));
                    v.push_back(p);
                }
                if (ver < 2 && !tk) {   // two full handshakes nested (B inside A), then each presents the other's id with its own secret, then both resume honestly
                    for (int var = 0; var < 4; var++) {
                        Plan p; p.seed = 151000 + (uint64_t) ((kind * 3 + ver) * 4 + var);
                        p.cfg["kind"] = kind ? KK_EC256 : KK_RSA2048;
                        if (var & 2) { p.ops.push_back(Op("full", 2, ver, 7, 0)); p.ops.push_back(Op("fatal", 2, 1)); }     // a wiped entry exists
                        p.ops.push_back(Op("nested", 0, 1, ver, 0));
                        p.ops.push_back(Op("graft", (var & 1) ? 1 : 0, (var & 1) ? 0 : 1, 1)); p.ops.push_back(Op("resume", (var & 1) ? 1 : 0, 0));
                        p.ops.push_back(Op("resume", (var & 1) ? 0 : 1, 0));
                        v.push_back(p);
                    }
                }
                if (ver < 2) {   // table-slot poisoning: B files a session of its own (ticket-resumed, or TLS 1.3 with a chosen legacy id) under A's table index, then presents A's id with B's secret
                    for (int how = 0; how < 3; how++) {
                        Plan p; p.seed = 153000 + (uint64_t) ((((kind * 3 + ver) * 2 + tk) * 4) + how);
                        p.cfg["kind"] = kind ? KK_EC256 : KK_RSA2048;
                        p.ops.push_back(Op("full", 0, ver, 7, 0));                        // A: session id in the cache
                        p.ops.push_back(Op("full", 1, how == 1 ? 2 : ver, 7, how == 1 ? 0 : 1));   // B: own session (ticket / TLS 1.3)
                        p.ops.push_back(Op("graft", 1, 0, 0)); p.ops.push_back(Op(how == 2 ? "hold" : "resume", 1, 0));
                        if (how == 2) { p.ops.push_back(Op("release", 0)); }
                        p.ops.push_back(Op("graft", 1, 0, 1)); p.ops.push_back(Op("resume", 1, 0));
                        p.ops.push_back(Op("resume", 0, 0));                             // and A itself afterwards
                        if (tk == 0) { v.push_back(p); }
                    }
                }
                {   // fatal alert on the session, then resume
                    Plan p; p.seed = 155000 + (uint64_t) ((kind * 3 + ver) * 2 + tk);
                    p.cfg["kind"] = kind ? KK_EC256 : KK_RSA2048;
                    p.ops.push_back(Op("full", 0, ver, 7, tk)); p.ops.push_back(Op("fatal", 0, 1)); p.ops.push_back(Op("resume", 0, 0));
                    v.push_back(p);
                }
                {   // two connections share one cache entry: A stays open, B (resumed) is hit by a fatal alert and goes away, C tries the id while A is open and again after A closed
                    for (int first_held = 0; first_held < 2; first_held++) {
                        Plan p; p.seed = 158000 + (uint64_t) (((kind * 3 + ver) * 2 + tk) * 2 + first_held);
                        p.cfg["kind"] = kind ? KK_EC256 : KK_RSA2048;
                        if (first_held) { p.ops.push_back(Op("full", 0, ver, 7, tk)); p.ops.push_back(Op("hold", 0, 0)); }
                        else { p.ops.push_back(Op("full", 0, ver, 7, tk)); p.ops.push_back(Op("hold", 0, 0)); p.ops.push_back(Op("hold", 0, 0)); }
                        p.ops.push_back(Op("fatal", 0, 1)); p.ops.push_back(Op("resume", 0, 0)); p.ops.push_back(Op("release", 0)); p.ops.push_back(Op("resume", 0, 0));
                        v.push_back(p);
                    }
                }
                if (ver < 2 && !tk) {   // session id of a handshake the server has only half done, presented with a guessed (empty) master secret
                    for (int guess = 0; guess < 3; guess++) { for (int ems = 0; ems < 2; ems++) {
                        Plan p; p.seed = 159000 + (uint64_t) (((kind * 3 + ver) * 3 + guess) * 2 + ems);
                        p.cfg["kind"] = kind ? KK_EC256 : KK_RSA2048;
                        p.ops.push_back(Op("halfopen", 0, ver, 7, (guess == 2 ? 4 : guess) | (ems << 1))); p.ops.push_back(Op("resume", 0, 0));
                        v.push_back(p);
                    } }
                }
                {   // ticket key removed, then resume
                    Plan p; p.seed = 156000 + (uint64_t) ((kind * 3 + ver) * 2 + tk);
                    p.cfg["kind"] = kind ? KK_EC256 : KK_RSA2048;
                    p.ops.push_back(Op("addkey", 2)); p.ops.push_back(Op("full", 0, ver, 7, tk)); p.ops.push_back(Op("rmkey", 1)); p.ops.push_back(Op("fill", 40)); p.ops.push_back(Op("resume", 0, 0));
                    v.push_back(p);
                }
            }
        }
    }
    return v;
}

bool Hist::setup() {
    server_kind = (int) plan.get("kind", KK_RSA2048);
    for (int s = 0; s < 2; s++) {
        vsim_set_node(NODE_SERVER);
        KeySpec ks; ks.identity = server_kind; ks.ticket_keys = true; ks.ticket_key_id = s == 0 ? 1 : 9;
        int rc = 0; skeys[s] = load_keys(ks, &rc);
        if (!skeys[s]) { setup_failed = true; setup_detail = "server keys rc=" + std::to_string(rc); return false; }
        ticket_keys[s].insert(ks.ticket_key_id); key_order[s].push_back(ks.ticket_key_id);
    }
    for (int c = 0; c < NCLIENTS; c++) {
        vsim_set_node(NODE_CLIENT);
        KeySpec ks; ks.ca_mask = 1u << server_kind;
        int rc = 0; cl[c].keys = load_keys(ks, &rc);
        if (!cl[c].keys) { setup_failed = true; setup_detail = "client keys rc=" + std::to_string(rc); return false; }
        vsim_set_node(NODE_HARNESS);
        if (matrixSslNewSessionId(&cl[c].sid, nullptr) < 0) { setup_failed = true; setup_detail = "NewSessionId"; return false; }
        cl[c].ver = 1; cl[c].suite = server_kind == KK_RSA2048 ? TLS_RSA_WITH_AES_128_CBC_SHA : TLS_ECDHE_ECDSA_WITH_AES_128_CBC_SHA;
    }
    return true;
}

void Hist::teardown() {
    vsim_set_node(NODE_HARNESS);
    for (int c = 0; c < NCLIENTS; c++) { if (cl[c].sid) { matrixSslDeleteSessionId(cl[c].sid); cl[c].sid = nullptr; } if (cl[c].keys) { matrixSslDeleteKeys(cl[c].keys); cl[c].keys = nullptr; } }
    for (int s = 0; s < 2; s++) { if (skeys[s]) { matrixSslDeleteKeys(skeys[s]); skeys[s] = nullptr; } }
}

struct SidSnap { std::string id, ticket, psk; };
static SidSnap snap_sid(sslSessionId_t *sid) {
    SidSnap s; int idLen = 0, tLen = 0, hasPsk = 0; unsigned int cid = 0;
    vsim_sid_info((struct sslSessionId *) sid, &idLen, &tLen, &hasPsk, &cid);
    if (idLen > 0) { s.id.assign((const char *) vsim_sid_id_bytes((struct sslSessionId *) sid), (size_t) idLen); }
    if (tLen > 0) { int l = 0; unsigned char *t = vsim_sid_ticket((struct sslSessionId *) sid, &l); if (t) { s.ticket.assign((const char *) t, (size_t) l); } }
    if (hasPsk) { int l = 0; unsigned char *t = vsim_sid_psk_id((struct sslSessionId *) sid, &l); if (t && l > 0) { s.psk.assign((const char *) t, (size_t) l); } }
    return s;
}

// mode: "full" (sid cleared first), "resume" (present whatever the sid holds), "fatal", "dirty", "foreign"
void Hist::connect(int c, int server, const Op &op, const std::function<void()> &mid) {
    Client &C = cl[c];
    std::string mode = op.k;
    if (mode == "full" || mode == "foreign") {
        vsim_set_node(NODE_HARNESS); matrixSslClearSessionId(C.sid);
        C.dirty = mode == "foreign";
        if (mode == "full") {
            Rng r((uint64_t) op.c + 77);
            C.ver = (int) (op.b % 3); C.suite = pick_suite(r, C.ver, server_kind); C.tickets = (op.d & 1) != 0; C.ems = (op.d & 2) && C.ver != 2 ? -1 : 0; C.multi = (op.d & 4) != 0;
        }
    } else if (mode == "resume" || mode == "fatal" || mode == "dirty" || mode == "hold") {
        // optionally present the stored state under other parameters
        Rng r(derive(plan.seed, "reparam", (uint64_t) op.b * 31 + (uint64_t) c));
        if (op.b != 0 && mode == "resume") { C.dirty = true; }
        if (op.b == 1 && mode == "resume") { C.suite = pick_suite(r, C.ver, server_kind); }
        else if (op.b == 2 && mode == "resume") { C.ver = (C.ver + 1 + (int) r.below(2)) % 3; C.suite = pick_suite(r, C.ver, server_kind); }
        else if (op.b == 3 && mode == "resume" && C.ver != 2) { C.ems = C.ems ? 0 : -1; }
    }
    SidSnap before = snap_sid(C.sid);
    PairCfg pc;
    static const uint32_t V[] = { v_tls_1_1, v_tls_1_2, v_tls_1_3 };
    pc.versions_c = { V[C.ver] }; pc.versions_s = { v_tls_1_3, v_tls_1_2, v_tls_1_1 };
    pc.suites = { C.suite }; pc.server_identity = server_kind; pc.tickets = C.tickets || C.ver == 2; pc.ems_c = C.ems;
    bool widened = false;
    if (op.b == 4 && mode == "resume" && C.ver != 2) {
        // the client presents its TLS <= 1.2 state (id / ticket) in a ClientHello that ALSO offers TLS 1.3 (supported_versions): the server
        // negotiates 1.3, for which that state is no valid resumption state at all
        pc.versions_c = { v_tls_1_3, V[C.ver] }; pc.suites.push_back(TLS_AES_128_GCM_SHA256); pc.tickets = true; widened = true; C.dirty = true;
        counters["fault.legacy_state_offered_with_tls13"]++;
    }
    (void) widened;
    if (C.multi && C.ver != 2) {
        static const uint16_t RSAF[] = { TLS_RSA_WITH_AES_128_CBC_SHA, TLS_RSA_WITH_AES_256_CBC_SHA, TLS_RSA_WITH_AES_128_CBC_SHA256, TLS_RSA_WITH_AES_256_CBC_SHA256, TLS_RSA_WITH_AES_128_GCM_SHA256, TLS_RSA_WITH_AES_256_GCM_SHA384 };
        static const uint16_t ECF[] = { TLS_ECDHE_ECDSA_WITH_AES_128_CBC_SHA, TLS_ECDHE_ECDSA_WITH_AES_256_CBC_SHA, TLS_ECDHE_ECDSA_WITH_AES_128_CBC_SHA256, TLS_ECDHE_ECDSA_WITH_AES_256_CBC_SHA384, TLS_ECDHE_ECDSA_WITH_AES_128_GCM_SHA256, TLS_ECDHE_ECDSA_WITH_AES_256_GCM_SHA384 };
        for (int i = 0; i < 6; i++) { uint16_t x = server_kind == KK_RSA2048 ? RSAF[i] : ECF[i]; if (x != C.suite && (C.ver == 1 || !suite_min_tls12(x))) { pc.suites.push_back(x); } }
    }
    std::unique_ptr<TlsWorld> wp(new TlsWorld()); TlsWorld &w = *wp;
    w.adopt(skeys[server], C.keys, C.sid, pc);
    bool hold = mode == "hold";                           // like "resume", but the connection stays open until a "release"
    bool corrupt = mode == "fatal";
    int corrupt_dir = (int) (op.b & 1);
    bool armed = false;
    w.filter = [&](Record &r, std::vector<Bytes> &out) { Bytes b = r.raw; if (armed && r.dir == corrupt_dir && r.type == 23 && b.size() > 8) { b[b.size() - 3] ^= 0x10; armed = false; counters["fault.corrupt_record"]++; } out.push_back(b); };
    if (!w.connect()) { counters["connect_failed"]++; fp.add((uint64_t) 0xdead); return; }
    if (mid) {
        // interleaving: this handshake is paused when the server's first flight (ServerHello ...) is on the wire, other connections run to
        // completion, then it goes on
        w.collect(DIR_C2S); while (w.deliver(DIR_C2S)) { } w.collect(DIR_S2C);
        mid();
        counters["conn.interleaved"]++;
    }
    bool ok = w.handshake();
    bool resumed_s = ok && w.srv->is_resumed(), resumed_c = ok && w.cli->is_resumed();
    uint32_t nver = ok ? (w.srv->negotiated_version() & 0xffffff) : 0, nsuite = ok ? w.srv->negotiated_suite() : 0;
    unsigned long long ms_s = 0, ms_c = 0;
    if (ok) { vsim_peek_master_secret_digest((const struct ssl *) w.srv->ssl, &ms_s); vsim_peek_master_secret_digest((const struct ssl *) w.cli->ssl, &ms_c); }
    int ems = ok ? vsim_peek_ems((const struct ssl *) w.srv->ssl) : 0;
    counters[std::string("conn.") + mode + (ok ? (resumed_s ? ".resumed" : ".full") : ".failed")]++;
    // probe only (C14 allows "a full handshake or failure"): an undisturbed connection of a client presenting untouched state of this server failed
    if (!ok && !C.dirty && server == 0 && !corrupt && (mode == "full" || mode == "resume" || mode == "hold")) {
        counters[std::string("probe.untouched_state_handshake_failed.") + ver_name(V[C.ver])]++;
    }
    std::string vname = ver_name(V[C.ver]);
    // ---------------- the oracle: a handshake that completed as resumed on the server
    if (resumed_s && server == 0) {
        bool tls13 = nver == v_tls_1_3;
        std::string why_all;
        bool justified = false;
        struct Cand { std::string mech, key; } cands[3] = { { "id", "id:" + before.id }, { "ticket", "ticket:" + before.ticket }, { "psk13", "psk13:" + before.psk } };
        std::string first_reason = "foreign_or_edited", first_mech = "none";
        for (auto &cd : cands) {
            if (cd.key.size() <= cd.mech.size() + 1) { continue; }
            if (tls13 != (cd.mech == "psk13")) { continue; }
            auto it = issued.find(cd.key);
            std::string reason;
            if (it == issued.end()) { reason = "foreign_or_edited"; }
            else {
                const Issued &I = it->second;
                int64_t age = now_s() - I.time_s;
                if (I.server != 0 && cd.mech != "id") { reason = "foreign_or_edited"; }   // the session cache is process-global: ids are shared by both key sets
                else if (age > (cd.mech == "psk13" ? LIFE13_S : LIFE_S)) { reason = "expired"; }
                else if (I.invalidated && cd.mech == "id") { reason = "invalidated"; }
                else if (cd.mech != "id" && !ticket_keys[0].count(I.ticket_key)) { reason = "removed_key"; }
                else if (I.version != nver) { reason = "param_mismatch_version"; }
                else if (I.suite != nsuite) { reason = "param_mismatch_suite"; }
                else if (!tls13 && I.ems != ems) { reason = "param_mismatch_ems"; }
                else if (!tls13 && I.ms != ms_s) { reason = "wrong_secret"; }
                else { justified = true; break; }
            }
            if (first_mech == "none" || reason != "foreign_or_edited") { first_reason = reason; first_mech = cd.mech; }
        }
        if (!justified) {
            std::string cls = first_reason == "expired" ? "resumed_expired" : first_reason == "invalidated" ? "resumed_invalidated" : first_reason == "removed_key" ? "resumed_removed_key" :
                              first_reason == "wrong_secret" ? "resumed_wrong_secret" : first_reason.rfind("param_mismatch", 0) == 0 ? "resumed_param_mismatch" : "resumed_foreign_or_edited";
            std::string ctx = first_mech + "," + vname + (first_reason.rfind("param_mismatch", 0) == 0 ? "," + first_reason.substr(15) : "") + (last_edit.empty() ? "" : "," + last_edit);
            fail(cls, ctx, "server completed a RESUMED handshake but the model finds no valid state of this server behind what the client presented (" + first_reason + " via " + first_mech +
                 "; presented id " + std::to_string(before.id.size()) + "B ticket " + std::to_string(before.ticket.size()) + "B psk-id " + std::to_string(before.psk.size()) + "B; version " + vname +
                 " suite " + suite_name((uint16_t) nsuite) + " ems " + std::to_string(ems) + "; now " + std::to_string(now_s()) + " s)");
        }
        if (resumed_s != resumed_c) { fail("endpoints_disagree_on_resumption", vname, "server says resumed, client does not"); }
    }
    // ---------------- traffic, outcome
    bool srv_alert = false;
    if (ok) {
        Bytes a = tagged_payload(0, c, 40), b = tagged_payload(1, c, 41);
        if (corrupt) { armed = true; }
        w.cli->app_send(a.data(), a.size()); w.srv->app_send(b.data(), b.size()); w.pump();
        srv_alert = w.srv->request_close || w.srv->got_fatal_alert || w.srv->got_error || w.cli->request_close;
        if (mode != "dirty" && !corrupt && !hold) { w.cli->app_close(); w.pump(); }
    }
    // ---------------- update the model with whatever the client now holds
    SidSnap after = snap_sid(C.sid);
    if (ok) {
        Issued I; I.server = server; I.time_s = now_s(); I.version = nver; I.suite = nsuite; I.ems = ems; I.ms = ms_s;
        I.ticket_key = key_order[server].empty() ? -1 : key_order[server].front();   // the first loaded key mints
        // (a full handshake whose ServerHello merely echoes the id the client presented - the server does that when it skips the cache because a
        //  ticket will be issued - creates no cache entry under that id: the model keeps whatever it knew about it)
        if (!after.id.empty() && nver != v_tls_1_3 && (resumed_s || after.id != before.id)) {
            Issued J = I; J.mech = "id"; J.invalidated = srv_alert;
            auto it = issued.find("id:" + after.id);
            if (it != issued.end() && it->second.invalidated) { J.invalidated = true; }   // once invalidated, stays so in the model
            if (it != issued.end() && resumed_s) { J.time_s = it->second.time_s; }      // a resumption does not renew the lifetime of a cached session: it is counted from the handshake that created it
            issued["id:" + after.id] = J;
        }
        if (!after.ticket.empty() && after.ticket != before.ticket) { Issued J = I; J.mech = "ticket"; issued["ticket:" + after.ticket] = J; }
        if (!after.psk.empty() && after.psk != before.psk) { Issued J = I; J.mech = "psk13"; issued["psk13:" + after.psk] = J; }
        if (srv_alert && resumed_s && !before.id.empty()) { auto it = issued.find("id:" + before.id); if (it != issued.end()) { it->second.invalidated = true; } }     // only a session that actually ran on that entry invalidates it
    }
    last_edit.clear();
    if (hold && ok) { w.filter = nullptr; fp.add(w.fingerprint()); held.push_back(std::move(wp)); counters["conn.held_open"]++; return; }
    w.close_sessions();
    fp.add(w.fingerprint());
    w.teardown();
}

void Hist::release(size_t i) {
    if (i >= held.size()) { return; }
    TlsWorld &w = *held[i];
    if (w.cli && w.cli->alive()) { w.cli->app_close(); w.pump(); }
    w.close_sessions(); fp.add(w.fingerprint()); w.teardown();
    held.erase(held.begin() + (long) i);
    counters["conn.released"]++;
}

// An attacker's view of a handshake the server has only half done: connection A sends a ClientHello and reads the ServerHello (with the
// session id the server has just allocated, in plaintext) but never continues.  The attacker then forges client state for that id - the only
// secret it can guess is "no master secret yet" (all zero) - into client c's session id object; a later "resume" presents it.
void Hist::forge_halfopen(int c, const Op &op) {
    Client &C = cl[c];
    C.ver = (int) ((uint64_t) op.b % 2);      // TLS 1.1 / 1.2: the session cache is not used by TLS 1.3
    Rng r((uint64_t) op.c + 99); C.suite = pick_suite(r, C.ver, server_kind); C.tickets = false; C.ems = (op.d & 2) ? -1 : 0; C.multi = false;
    static const uint32_t V[] = { v_tls_1_1, v_tls_1_2, v_tls_1_3 };
    PairCfg pc; pc.versions_c = { V[C.ver] }; pc.versions_s = { v_tls_1_3, v_tls_1_2, v_tls_1_1 }; pc.suites = { C.suite }; pc.server_identity = server_kind; pc.ems_c = C.ems;
    vsim_set_node(NODE_HARNESS);
    sslSessionId_t *tmp = nullptr; if (matrixSslNewSessionId(&tmp, nullptr) < 0) { return; }
    std::unique_ptr<TlsWorld> wp(new TlsWorld()); TlsWorld &w = *wp;
    w.adopt(skeys[0], C.keys, tmp, pc);
    w.record_granular = true;                 // one record per delivery: the attacker stops in front of ChangeCipherSpec
    bool got = false;
    if (w.connect()) {
        w.collect(DIR_C2S); while (w.deliver(DIR_C2S)) { } w.collect(DIR_S2C);      // ClientHello in, server flight out
        bool after_cke = (op.d & 4) != 0;
        unsigned char real_ms[48]; bool have_ms = false;
        if (after_cke) {
            // the attacker goes one step further: it answers with a ClientKeyExchange (so the server derives the master secret, which the
            // attacker, having chosen the premaster, knows too) but never sends ChangeCipherSpec / Finished
            while (w.deliver(DIR_S2C)) { }
            w.collect(DIR_C2S);
            size_t n = w.wire[DIR_C2S].size();
            for (size_t i = 0; i < n && !w.wire[DIR_C2S].empty(); i++) {
                const Bytes &u = w.wire[DIR_C2S].front();
                if (!u.empty() && u[0] == 20) { break; }                          // stop at ChangeCipherSpec
                if (!w.deliver(DIR_C2S)) { break; }
            }
            w.wire[DIR_C2S].clear();
            have_ms = w.cli && w.cli->alive() && vsim_peek_master_secret((const struct ssl *) w.cli->ssl, real_ms) == 0;
        }
        for (auto &rec : w.captured[DIR_S2C]) {
            if (rec.type != 22 || rec.body_len() < 4 + 2 + 32 + 1 || rec.raw[rec.hdr] != 2) { continue; }
            const unsigned char *b = rec.raw.data() + rec.hdr + 4 + 2 + 32; size_t n = *b;
            if (n == 32 && rec.body_len() >= 4 + 2 + 32 + 1 + n) {
                struct sslSessionId *sid = (struct sslSessionId *) C.sid;
                vsim_set_node(NODE_HARNESS); matrixSslClearSessionId(C.sid);
                memcpy(vsim_sid_id_bytes(sid), b + 1, 32); vsim_sid_set_idlen(sid, 32);
                memset(vsim_sid_master(sid), (op.d & 1) ? 0xA5 : 0, 48);              // the guess: nothing there yet (or allocator poison)
                if (have_ms) { memcpy(vsim_sid_master(sid), real_ms, 48); }            // ... or the real one of the unfinished handshake
                vsim_sid_set_cipher(sid, C.suite);
                got = true;
            }
            break;
        }
    }
    counters[got ? ((op.d & 4) ? "fault.forged_session_of_unfinished_handshake" : "fault.forged_halfopen_session") : "fault_not_fired"]++;
    last_edit = "forged_halfopen"; C.dirty = true;
    w.filter = nullptr;
    held.push_back(std::move(wp)); held_tmp_sids.push_back(tmp);
}

void Hist::edit(int c, const Op &op) {
    Client &C = cl[c];
    struct sslSessionId *sid = (struct sslSessionId *) C.sid;
    int idLen = 0, tLen = 0, hasPsk = 0; unsigned int cid = 0;
    vsim_sid_info(sid, &idLen, &tLen, &hasPsk, &cid);
    int kind = (int) (op.b % 9);
    unsigned char x = (unsigned char) (op.d ? op.d : 1);
    std::string what = "none";
    switch (kind) {
    case 0: if (idLen > 0) { vsim_sid_id_bytes(sid)[4 + (uint64_t) op.c % (uint64_t) (idLen > 4 ? idLen - 4 : 1)] ^= x; what = "id_byte"; } break;          // keep the table index, change the rest
    case 1: if (idLen > 4) { vsim_sid_set_idlen(sid, 4 + (int) ((uint64_t) op.c % 8)); what = "id_truncated"; } break;
    case 2: if (idLen > 0) { vsim_sid_id_bytes(sid)[(uint64_t) op.c % 4] ^= x; what = "id_index"; } break;
    case 3: if (tLen > 0) { int l; vsim_sid_ticket(sid, &l)[(uint64_t) op.c % 16] ^= x; what = "ticket_name"; } break;
    case 4: if (tLen > 32) { int l; vsim_sid_ticket(sid, &l)[16 + (uint64_t) op.c % 16] ^= x; what = "ticket_iv"; } break;
    case 5: if (tLen > 70) { int l; unsigned char *t = vsim_sid_ticket(sid, &l); t[32 + (uint64_t) op.c % (uint64_t) (l - 64)] ^= x; what = "ticket_body"; } break;   // op.c < 16 addresses the first encrypted block
    case 6: if (tLen > 40) { int l; unsigned char *t = vsim_sid_ticket(sid, &l); t[l - 1 - (uint64_t) op.c % 32] ^= x; what = "ticket_mac"; } break;
    case 7: if (tLen > 40) { vsim_sid_set_ticket_len(sid, tLen - 1 - (int) ((uint64_t) op.c % 16)); what = "ticket_truncated"; } break;
    case 8: if (hasPsk) { int l; unsigned char *t = vsim_sid_psk_id(sid, &l); if (t && l > 0) { t[(uint64_t) op.c % (uint64_t) l] ^= x; what = "psk_id"; } } break;
    }
    if (what == "none") { counters["fault_not_fired"]++; } else { counters["fault.edit_" + what]++; last_edit = what; C.dirty = true; }
}

// an attacking client builds its stored state from what it saw on the wire of ANOTHER client's session (session ids are sent in the clear):
// mode 0: its own id becomes <first four bytes of the other id (the server's table index)> + other bytes, everything else (its own ticket,
//         master secret) kept - a session of its own that the server may file under the other client's table slot;
// mode 1: the other client's whole id, with the attacker's OWN master secret and suite and no ticket - a resumption attempt under the other id
void Hist::graft(int dst, int src, const Op &op) {
    if (dst == src) { counters["fault_not_fired"]++; return; }
    struct sslSessionId *d = (struct sslSessionId *) cl[dst].sid, *sr = (struct sslSessionId *) cl[src].sid;
    int sl = 0, dl = 0, t = 0, h = 0; unsigned int cid = 0, scid = 0;
    vsim_sid_info(sr, &sl, &t, &h, &scid); vsim_sid_info(d, &dl, &t, &h, &cid);
    if (sl < 8) { counters["fault_not_fired"]++; return; }
    unsigned char *db = vsim_sid_id_bytes(d), *sb = vsim_sid_id_bytes(sr);
    if ((op.c & 1) == 0) {
        for (int i = 0; i < 32; i++) { db[i] = i < 4 ? sb[i] : (unsigned char) (sb[i] ^ (0x5a + i)); }
        vsim_sid_set_idlen(d, 32);
        counters["fault.graft_table_index"]++; last_edit = "graft_index";
    } else {
        memcpy(db, sb, (size_t) sl); vsim_sid_set_idlen(d, sl);
        vsim_sid_set_ticket_len(d, 0);
        if (scid) { vsim_sid_set_cipher(d, scid); }
        counters["fault.graft_whole_id"]++; last_edit = "graft_id";
    }
    cl[dst].dirty = true;
}

void Hist::run() {
    for (auto &op : plan.ops) {
        if (!viol_cls.empty()) { break; }
        if (op.k == "nested") {
            // client a's full handshake with client b's full handshake nested inside it (between a's ServerHello and a's Finished)
            int oa = (int) ((uint64_t) op.a % NCLIENTS), ob = (int) ((uint64_t) op.b % NCLIENTS);
            if (oa == ob) { ob = (oa + 1) % NCLIENTS; }
            Op outer("full", oa, op.c, 7, op.d), inner("full", ob, op.c, 7, op.d);
            connect(oa, 0, outer, [&]() { connect(ob, 0, inner); });
        }
        else if (op.k == "midrm") {
            // the server application withdraws ALL ticket keys while client a's ticket-issuing handshake is between the server's two flights
            // (the decision to issue a ticket was taken at the ClientHello), and loads a key again afterwards
            int oa = (int) ((uint64_t) op.a % NCLIENTS);
            Op outer("full", oa, op.c, 7, 1 | (op.d & 2));
            connect(oa, 0, outer, [&]() {
                std::vector<int> ids(ticket_keys[0].begin(), ticket_keys[0].end());
                for (int id : ids) {
                    unsigned char name[16], sym[32], mac[32]; ticket_key_material(id, name, sym, mac);
                    vsim_set_node(NODE_SERVER);
                    if (matrixSslDeleteSessionTicketKey(skeys[0], name) >= 0) { ticket_keys[0].erase(id); key_order[0].erase(std::find(key_order[0].begin(), key_order[0].end(), id)); counters["ticket_key_removed_mid_handshake"]++; }
                }
                vsim_set_node(NODE_HARNESS);
            });
            int id = 2 + (int) ((uint64_t) op.b % 3);
            if (!ticket_keys[0].count(id)) {
                unsigned char name[16], sym[32], mac[32]; ticket_key_material(id, name, sym, mac);
                vsim_set_node(NODE_SERVER);
                if (matrixSslLoadSessionTicketKeys(skeys[0], name, sym, 32, mac, 32) >= 0) { ticket_keys[0].insert(id); key_order[0].push_back(id); }
                vsim_set_node(NODE_HARNESS);
            }
        }
        else if (op.k == "graft") { graft((int) ((uint64_t) op.a % NCLIENTS), (int) ((uint64_t) op.b % NCLIENTS), op); }
        else if (op.k == "halfopen") { forge_halfopen((int) ((uint64_t) op.a % NCLIENTS), op); }
        else if (op.k == "release") { if (!held.empty()) { release((size_t) ((uint64_t) op.a % held.size())); } }
        else if (op.k == "full" || op.k == "resume" || op.k == "fatal" || op.k == "dirty" || op.k == "hold") { connect((int) ((uint64_t) op.a % NCLIENTS), 0, op); }
        else if (op.k == "foreign") { connect((int) ((uint64_t) op.a % NCLIENTS), 1, op); }
        else if (op.k == "advance") { vsim_clock_advance_ms(op.a); counters["clock_advanced"]++; }
        else if (op.k == "fill") {
            // other clients make full handshakes: cache pressure / eviction
            vsim_set_node(NODE_HARNESS);
            sslSessionId_t *tmp = nullptr; matrixSslNewSessionId(&tmp, nullptr);
            PairCfg pc; pc.versions_c = { v_tls_1_2 }; pc.versions_s = { v_tls_1_3, v_tls_1_2, v_tls_1_1 };
            pc.suites = { (uint16_t) (server_kind == KK_RSA2048 ? TLS_RSA_WITH_AES_128_CBC_SHA : TLS_ECDH_ECDSA_WITH_AES_128_CBC_SHA) }; pc.server_identity = server_kind;
            for (int i = 0; i < op.a; i++) {
                matrixSslClearSessionId(tmp);
                TlsWorld w; w.adopt(skeys[0], cl[0].keys, tmp, pc);
                if (w.connect() && w.handshake()) { w.cli->app_close(); w.pump(); counters["fill_sessions"]++; }
                w.close_sessions(); w.teardown();
            }
            vsim_set_node(NODE_HARNESS); matrixSslDeleteSessionId(tmp);
        } else if (op.k == "addkey") {
            int id = (int) op.a;
            if (!ticket_keys[0].count(id)) {
                unsigned char name[16], sym[32], mac[32]; ticket_key_material(id, name, sym, mac);
                vsim_set_node(NODE_SERVER);
                if (matrixSslLoadSessionTicketKeys(skeys[0], name, sym, 32, mac, 32) >= 0) { ticket_keys[0].insert(id); key_order[0].push_back(id); counters["ticket_key_added"]++; }
            }
        } else if (op.k == "rmkey") {
            int id = (int) op.a;
            if (ticket_keys[0].count(id) && ticket_keys[0].size() > 1) {
                unsigned char name[16], sym[32], mac[32]; ticket_key_material(id, name, sym, mac);
                vsim_set_node(NODE_SERVER);
                int rc = matrixSslDeleteSessionTicketKey(skeys[0], name);
                if (rc >= 0) { ticket_keys[0].erase(id); key_order[0].erase(std::find(key_order[0].begin(), key_order[0].end(), id)); counters["ticket_key_removed"]++; }
                else { counters["ticket_key_remove_refused"]++; }
            }
        } else if (op.k == "edit") { edit((int) ((uint64_t) op.a % NCLIENTS), op); }
    }
    while (!held.empty()) { release(0); }
    vsim_set_node(NODE_HARNESS);
    for (auto *t : held_tmp_sids) { matrixSslDeleteSessionId(t); }
    held_tmp_sids.clear();
}

static RunResult c14_exec(const Plan &p) {
    RunResult res;
    vsim_run_reset(p.seed);
    sim_global_open();
    {
        Hist h(p);
        if (!h.setup()) { res.harness_error = true; res.detail = h.setup_detail; }
        else {
            h.run();
            if (!h.viol_cls.empty()) { res.violate(h.viol_cls, h.viol_ctx, h.viol_detail); }
            for (auto &kv : h.counters) { res.counters[kv.first] += kv.second; }
            int resumed = 0; for (auto &kv : h.counters) { if (kv.first.find(".resumed") != std::string::npos) { resumed += (int) kv.second; } }
            res.nontrivial = resumed > 0 || h.counters.count("conn.resume.full") || h.counters.count("conn.resume.failed");
            res.fingerprint = h.fp.value();
            res.sim_ms = (double) vsim_mono_ms();
        }
        h.teardown();
    }
    sim_global_close();
    return res;
}

static ModuleRegistrar reg({ "C14", "hist", "exploration",
    "seeded histories over 3 clients and one server key set (plus a foreign server with other ticket keys): full handshake (version/suite/EMS/ticket options), resume with the stored state (optionally under another suite, version or EMS setting), "
    "simulated clock advances (seconds .. 60 days, around the 1-day lifetime, the TLS 1.3 ticket lifetime and 2^31 ms), fatal alert on a session, dirty close, cache pressure (5-45 extra sessions), ticket-key add/remove, foreign tickets, "
    "byte-level edits of session id / ticket (name, IV, body, MAC, length) / TLS 1.3 identity; fixed aimed histories: issue, one clock jump or one edit, resume, per server identity x version x mechanism. "
    "reference model: map of every identifier this server issued (time, version, suite, EMS, secret digest, key, invalidated); judged only when the server completes a handshake as resumed. "
    "non-trivial = the history contains a resumption attempt; distinct = distinct history fingerprint",
    c14_gen, c14_exec, 2500, 60000, 75, 1200,
    { "core (incl. osdep.c: psGetTime/psDiffMsecs on the simulated clock)", "crypto", "matrixssl (session cache, tickets, TLS 1.3 PSK resumption, client session-id objects)" },
    { "transport", "applications", "clock", "entropy", "allocator front-end" },
    { "expiry of a cached session id is measured from the handshake that created it (a resumption does not renew it); tickets / TLS 1.3 PSKs from when that ticket was issued",
      "the model does not predict eviction: a declined resumption is never a violation" },
    "asan", c14_fixed, false });
