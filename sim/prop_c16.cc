// C16 - DTLS completes under loss/reorder/duplication once datagrams get through (timeout-driven
// retransmission), and no record is accepted twice: replays never regress state or deliver data twice.
#include "dtlssim.h"

static const int64_t HEAL_BUDGET_MS = 600000;     // bounded liveness: complete within 600 simulated seconds after the last fault
static const int MAX_FIRES_AFTER_HEAL = 12;
static const int MAX_EVENTS = 4000;

static const uint16_t SUITES10[] = { TLS_RSA_WITH_AES_128_CBC_SHA, TLS_RSA_WITH_AES_256_CBC_SHA, TLS_ECDHE_ECDSA_WITH_AES_128_CBC_SHA, TLS_ECDHE_RSA_WITH_AES_128_CBC_SHA, TLS_PSK_WITH_AES_128_CBC_SHA, TLS_ECDH_ECDSA_WITH_AES_128_CBC_SHA };
static const uint16_t SUITES12[] = { TLS_RSA_WITH_AES_128_GCM_SHA256, TLS_RSA_WITH_AES_128_CBC_SHA256, TLS_ECDHE_ECDSA_WITH_AES_128_GCM_SHA256, TLS_ECDHE_RSA_WITH_AES_256_GCM_SHA384, TLS_ECDHE_ECDSA_WITH_AES_128_CBC_SHA256, TLS_PSK_WITH_AES_128_CBC_SHA256 };
static const int PMTUS[] = { 1500, 1500, 1400, 900, 600, 500, 400, 400 };   // below 400 the 2048-bit RSA key exchange / signature messages, which the library does not fragment, no longer fit: fault-free handshakes fail there (see DESIGN)

static Plan c16_gen(uint64_t seed, int tier, uint64_t index) {
    (void) tier; (void) index;
    Rng r(seed);
    Plan p;
    int ver = 3 + (int) r.below(2);
    p.cfg["ver"] = ver;
    p.cfg["suite"] = (ver == 4 && r.chance(2, 3)) ? SUITES12[r.below(6)] : SUITES10[r.below(6)];
    bool psk = suite_auth_kind((uint16_t) p.get("suite")) == KK_PSK_ONLY;
    if (!psk && r.chance(1, 4)) { p.cfg["cauth"] = r.chance(1, 2) ? KK_RSA2048 : KK_EC256; }
    if (r.chance(1, 4)) { p.cfg["resume"] = 1; }
    if (r.chance(1, 4)) { p.cfg["speak"] = 1 + (int64_t) r.below(3); }
    p.cfg["pmtu"] = PMTUS[r.below(sizeof PMTUS / sizeof PMTUS[0])];
    // swarm: which fault kinds are enabled in this run
    bool en_drop = r.chance(2, 3), en_dup = r.chance(1, 2), en_delay = r.chance(1, 2), en_replay = r.chance(1, 2);
    if (!en_drop && !en_dup && !en_delay && !en_replay) { en_replay = true; }
    int nf = (int) r.below(5);
    for (int i = 0; i < nf; i++) {
        int k = (int) r.below(24);
        int kind = 0;
        for (int t = 0; t < 8 && kind == 0; t++) { int c = 1 + (int) r.below(3); if ((c == 1 && en_drop) || (c == 2 && en_dup) || (c == 3 && en_delay)) { kind = c; } }
        if (!kind) { continue; }
        int64_t param = kind == FATE_DUP ? (int64_t) (1 + r.below(3000)) : kind == FATE_DELAY ? (int64_t) (5 + r.below(4000)) : 0;
        p.ops.push_back(Op("fate", k, kind, param));
    }
    if (en_replay) {
        int nr = 1 + (int) r.below(3);
        for (int i = 0; i < nr; i++) { p.ops.push_back(Op("hreplay", (int64_t) (20 + r.below(3000)), (int64_t) r.below(16))); }   // during the handshake
    }
    // application phase: tagged datagrams both ways, replays of every kind of captured record in between
    int na = 2 + (int) r.below(5);
    for (int i = 0; i < na; i++) { p.ops.push_back(Op("app", (int64_t) (10 + r.below(400)), (int64_t) r.below(2), (int64_t) (1 + r.below(600)))); }
    if (en_replay || r.chance(1, 2)) {
        int nr = 1 + (int) r.below(5);
        for (int i = 0; i < nr; i++) { p.ops.push_back(Op("areplay", (int64_t) (30 + r.below(600)), (int64_t) r.below(64), (int64_t) r.below(3))); }
    }
    if (r.chance(2, 3)) {
        int nfa = 1 + (int) r.below(4);
        for (int i = 0; i < nfa; i++) {
            int kind = 1 + (int) r.below(3);
            p.ops.push_back(Op("afate", (int64_t) r.below(8), kind, kind == FATE_DROP ? 0 : (int64_t) (5 + r.below(kind == FATE_DELAY ? 500 : 900))));
        }
        int nr = 1 + (int) r.below(4);
        for (int i = 0; i < nr; i++) { p.ops.push_back(Op("areplay", (int64_t) (600 + r.below(900)), (int64_t) r.below(8), 1)); }   // after the reordered records have all arrived
    }
    int nb = (int) r.below(3);
    for (int i = 0; i < nb; i++) { p.ops.push_back(Op("app", (int64_t) (700 + r.below(300)), (int64_t) r.below(2), (int64_t) (1 + r.below(300)))); }
    return p;
}

// bounded enumeration: every single-drop and single-duplicate schedule of the handshake datagrams, per cfg
struct FixedCfg { int ver; uint16_t suite; int pmtu; int resume; };
static const FixedCfg FIXED[] = {
    { 4, TLS_ECDHE_ECDSA_WITH_AES_128_GCM_SHA256, 1500, 0 }, { 3, TLS_RSA_WITH_AES_128_CBC_SHA, 1500, 0 }, { 4, TLS_PSK_WITH_AES_128_CBC_SHA256, 1500, 0 },
    { 4, TLS_RSA_WITH_AES_128_GCM_SHA256, 1500, 1 }, { 4, TLS_ECDHE_RSA_WITH_AES_256_GCM_SHA384, 1500, 0 }, { 4, TLS_ECDHE_ECDSA_WITH_AES_128_CBC_SHA256, 400, 0 },
    { 3, TLS_ECDHE_RSA_WITH_AES_128_CBC_SHA, 600, 0 }, { 4, TLS_RSA_WITH_AES_128_CBC_SHA256, 400, 0 },
};
static std::vector<Plan> c16_fixed(int tier) {
    std::vector<Plan> v;
    size_t ncfg = tier ? sizeof FIXED / sizeof FIXED[0] : 4;
    for (size_t c = 0; c < ncfg; c++) {
        int nd = FIXED[c].pmtu < 1000 ? 24 : 12;
        for (int k = 0; k < nd; k++) {
            for (int kind = FATE_DROP; kind <= FATE_DUP; kind++) {
                Plan p; p.seed = 160000 + c * 1000 + (uint64_t) (k * 4 + kind);
                p.cfg["ver"] = FIXED[c].ver; p.cfg["suite"] = FIXED[c].suite; p.cfg["pmtu"] = FIXED[c].pmtu; if (FIXED[c].resume) { p.cfg["resume"] = 1; }
                p.ops.push_back(Op("fate", k, kind, kind == FATE_DUP ? 700 : 0));
                p.ops.push_back(Op("app", 10, 0, 40)); p.ops.push_back(Op("app", 20, 1, 40));
                // replay every datagram of the finished handshake once, then the application records again
                for (int j = 0; j < 10; j++) { p.ops.push_back(Op("areplay", 60 + j * 10, j, 0)); }
                p.ops.push_back(Op("areplay", 300, 100, 1)); p.ops.push_back(Op("areplay", 320, 101, 1));
                p.ops.push_back(Op("app", 400, 0, 30)); p.ops.push_back(Op("app", 420, 1, 30));
                v.push_back(p);
            }
        }
    }
    // the side that completes first speaks at once; every single drop of a handshake datagram (the final flight included) must still heal
    for (size_t c = 0; c < 4; c++) {
        for (int k = 0; k < 12; k++) {
            for (int sp = 1; sp <= (tier ? 3 : 2); sp++) {
                Plan p; p.seed = 165000 + c * 1000 + (uint64_t) (k * 4 + sp);
                p.cfg["ver"] = FIXED[c].ver; p.cfg["suite"] = FIXED[c].suite; p.cfg["pmtu"] = FIXED[c].pmtu; if (FIXED[c].resume) { p.cfg["resume"] = 1; }
                p.cfg["speak"] = sp;
                p.ops.push_back(Op("fate", k, FATE_DROP, 0));
                p.ops.push_back(Op("app", 10, 0, 40)); p.ops.push_back(Op("app", 20, 1, 40));
                v.push_back(p);
            }
        }
    }
    // application-phase reordering: records 0..3 of one direction arrive in a permuted order (short delays), then each is replayed
    static const int DELAYS[6][4] = { { 0, 0, 0, 0 }, { 90, 0, 0, 0 }, { 0, 90, 0, 0 }, { 120, 60, 0, 0 }, { 0, 0, 90, 0 }, { 150, 0, 80, 0 } };
    for (int ver = 3; ver <= 4; ver++) {
        for (int suite = 0; suite < 2; suite++) {
            for (int d = 0; d < 6; d++) {
                for (int role = 0; role < 2; role++) {
                    Plan p; p.seed = 170000 + (uint64_t) (((ver * 2 + suite) * 6 + d) * 2 + role);
                    p.cfg["ver"] = ver; p.cfg["suite"] = suite ? (ver == 4 ? TLS_RSA_WITH_AES_128_GCM_SHA256 : TLS_RSA_WITH_AES_256_CBC_SHA) : TLS_RSA_WITH_AES_128_CBC_SHA; p.cfg["pmtu"] = 1500;
                    for (int i = 0; i < 4; i++) { p.ops.push_back(Op("app", 10 + i * 10, role, 20 + i)); if (DELAYS[d][i]) { p.ops.push_back(Op("afate", i, FATE_DELAY, DELAYS[d][i])); } }
                    for (int i = 0; i < 4; i++) { p.ops.push_back(Op("areplay", 400 + i * 20, i, 1)); p.ops.push_back(Op("areplay", 600 + i * 20, 3 - i, 1)); }
                    v.push_back(p);
                }
            }
        }
    }
    return v;
}

static RunResult c16_exec(const Plan &p) {
    RunResult res;
    vsim_run_reset(p.seed);
    sim_global_open();
    {
        DtlsSim s(p);
        if (!s.start()) { res.harness_error = true; res.detail = s.setup_detail + " cfg=" + std::string(ver_name(s.pc.version)) + "," + suite_name((uint16_t) p.get("suite")); }
        else {
            std::string ver = ver_name(s.pc.version);
            std::string mode = std::string(p.get("resume") ? "resumed" : "full") + (p.get("cauth") ? "+cauth" : "");
            std::string fam = suite_name((uint16_t) p.get("suite"));
            size_t before[2] = { 0, 0 };
            bool both = s.run_plan(true, before);
            bool any_fault = s.counters["fault.drop"] + s.counters["fault.dup"] + s.counters["fault.delay"] + s.counters["fault.replay"] > 0;
            res.count(both ? "hs.completed" : "hs.not_completed");
            res.count("hs.timer_fires", s.timer[0].fires + s.timer[1].fires);
            if (!both) {
                std::string why = s.ep(0).is_dead() || s.ep(1).is_dead() ? "session_died" : s.event_cap_hit ? "event_cap" : "timeout";
                std::string ctx = ver + "," + fam + "," + mode + ",pmtu" + std::to_string(s.pmtu < 1000 ? 0 : 1) + "," + s.last_fault_kind + "," + why;
                if (!any_fault) { res.harness_error = false; res.violate("no_completion_fault_free", ver + "," + fam + "," + mode + ",pmtu" + std::to_string(s.pmtu), "fault-free DTLS handshake did not complete (" + why + ")"); }
                else {
                    res.violate("no_completion_after_heal", ctx, "handshake did not complete within " + std::to_string(HEAL_BUDGET_MS / 1000) + " simulated s after the last fault (" + why + "): cli complete=" +
                                std::to_string(s.ep(0).complete) + " err=" + std::to_string(s.ep(0).first_error) + " srv complete=" + std::to_string(s.ep(1).complete) + " err=" + std::to_string(s.ep(1).first_error) +
                                " timer fires cli/srv=" + std::to_string(s.timer[0].fires) + "/" + std::to_string(s.timer[1].fires) + " datagrams=" + std::to_string(s.emit_count) + " now=" + std::to_string(s.now));
                }
            } else {
                if (s.fires_after_heal[0] > MAX_FIRES_AFTER_HEAL || s.fires_after_heal[1] > MAX_FIRES_AFTER_HEAL) {
                    res.violate("no_completion_after_heal", ver + "," + fam + "," + mode + ",too_many_timer_rounds", "more than 12 timer expiries after the last fault");
                }
                bool dead_after = s.dead_after_app;
                // safety: at most once, only what was sent
                for (int dir = 0; dir < 2 && !res.violation; dir++) {
                    MxEndpoint &rcv = s.ep(dir == DIR_C2S ? 1 : 0);
                    std::vector<int> used(s.app_sent[dir].size(), 0);
                    for (auto &c : rcv.delivered) {
                        bool found = false, dup = false;
                        for (size_t i = 0; i < s.app_sent[dir].size(); i++) { if (s.app_sent[dir][i] == c) { if (!used[i]) { used[i] = 1; found = true; break; } dup = true; } }
                        if (!found) {
                            if (dup) { res.violate("dtls_duplicate_delivery", std::string(s.post_completion_resend ? "after_final_flight_resend" : "no_final_flight_resend"), "an application datagram was delivered twice (most recent replayed record kind: " + s.last_replayed_kind + ")"); }
                            else { res.violate("forged_or_altered_delivery", ver, "a delivered datagram equals nothing the peer sent"); }
                            break;
                        }
                    }
                }
                if (!res.violation && dead_after) {
                    res.violate("session_killed_by_replay", std::string(s.post_completion_resend ? "after_final_flight_resend" : "no_final_flight_resend"),
                                "an established session died although the network only dropped/duplicated/reordered/replayed honest datagrams: cli err=" + std::to_string(s.ep(0).first_error) + " srv err=" + std::to_string(s.ep(1).first_error) +
                                " cli alert_out=" + std::to_string(s.ep(0).request_close) + " srv alert_out=" + std::to_string(s.ep(1).request_close));
                }
                if (!res.violation && !dead_after) {
                    for (int role = 0; role < 2; role++) {
                        if (s.ep(role).delivered.size() == before[role] && !s.app_sent[role == 0 ? DIR_S2C : DIR_C2S].empty()) {
                            res.violate("handshake_regressed_by_replay", std::string(s.post_completion_resend ? "after_final_flight_resend" : "no_final_flight_resend"),
                                        "after the faults stopped a fresh honest datagram was not delivered to the " + std::string(role ? "server" : "client") + " (" + ver + "," + fam + ", last replayed record kind " + s.last_replayed_kind + ")");
                            break;
                        }
                    }
                }
            }
            res.nontrivial = any_fault;
            res.fingerprint = s.fingerprint();
            for (auto &kv : s.counters) { res.counters[kv.first] += kv.second; }
            res.states = s.states;
            res.sim_ms = (double) s.now;
            res.count("datagrams", s.emit_count);
            if (s.event_cap_hit) { res.count("probe.event_cap_hit"); }
        }
    }
    sim_global_close();
    return res;
}

static ModuleRegistrar reg({ "C16", "dtls", "exploration",
    "discrete-event datagram network, application-style resend timers (1 s doubling to 60 s): swarm cfg (DTLS 1.0/1.2 x CBC/GCM x RSA/ECDHE/ECDH/PSK x client auth x resumption x PMTU 256..1500) x "
    "per-datagram fates keyed by emission index (drop, duplicate, delay/reorder) x replays of captured datagrams during the handshake and after it (handshake flights, CCS/Finished flights, application records) x "
    "tagged application datagrams both ways; fixed plans enumerate every single-drop and single-duplicate schedule of the handshake per cfg followed by a replay of every handshake datagram. "
    "non-trivial = at least one fate or replay fired; distinct = distinct history fingerprint (all emitted datagrams with their simulated emission times)",
    c16_gen, c16_exec, 3000, 80000, 75, 1200,
    { "core (incl. osdep.c: psGetTime/psDiffMsecs on the simulated clock)", "crypto", "matrixssl (DTLS client and server, retransmission logic)" },
    { "datagram transport (event queue)", "resend timers (application side, as in apps/dtls)", "applications", "clock", "entropy", "allocator front-end" },
    { "the network never forges or alters datagrams", "liveness is judged only after the last fault: completion within 600 simulated seconds and 12 timer expiries per side" },
    "asan", c16_fixed, false });
