/* Force-included into every library translation unit by tools/gen_build.py.
 * The library's Malloc/Calloc/Realloc/Free macros (osdep_stdlib.h says they
 * "may be overrided from command line") are pointed at these functions. */
#ifndef VSIM_ALLOC_H
#define VSIM_ALLOC_H
#include <stddef.h>
#ifdef __cplusplus
extern "C" {
#endif
void *vsim_malloc(size_t n, const char *file, const char *func, int line);
void *vsim_calloc(size_t n, size_t s, const char *file, const char *func, int line);
void *vsim_realloc(void *p, size_t n, const char *file, const char *func, int line);
void vsim_free(void *p, const char *file, const char *func, int line);
#ifdef __cplusplus
}
#endif
#endif
