/* Simulator-owned seams: clock, wall clock, entropy, allocator, AEAD/sign probes.
 * C interface so both the C shims and the C++ harness use it. */
#ifndef VSIM_SEAMS_H
#define VSIM_SEAMS_H
#include <stddef.h>
#include <stdint.h>
#ifdef __cplusplus
extern "C" {
#endif

#define VSIM_MAX_NODES 16

/* ---- lifecycle ---- */
void vsim_enable(void);                   /* call first thing in main(): seams own time/entropy from now on */
void vsim_run_reset(uint64_t seed);       /* start of every simulated run: clocks, entropy streams, alloc tracking */
void vsim_set_node(int node);             /* "current node" for the calling thread (before every API call) */
int  vsim_get_node(void);

/* ---- clocks ---- */
void     vsim_clock_set(int64_t mono_ms, int64_t wall_s);
void     vsim_clock_advance_ms(int64_t ms);       /* both monotonic and wall */
void     vsim_wall_jump_s(int64_t s);             /* wall only (mono/wall divergence) */
void     vsim_node_skew(int node, int64_t mono_ms, int64_t wall_s);
int64_t  vsim_mono_ms(void);
int64_t  vsim_wall_s(void);
uint64_t vsim_clock_reads(void);

/* ---- entropy ---- */
enum { VSIM_ENT_OK = 0, VSIM_ENT_SHORT = 1, VSIM_ENT_EINTR = 2, VSIM_ENT_EAGAIN = 3, VSIM_ENT_HARDFAIL = 4 };
void     vsim_entropy_fault_at(int64_t draw_index, int kind, int count); /* draw index counted from arm point; -1 disarms */
void     vsim_entropy_arm(void);                  /* reset draw counter */
uint64_t vsim_entropy_draws(void);
uint64_t vsim_entropy_bytes(void);
uint64_t vsim_entropy_faults_fired(void);
/* last draws, for the CBC IV freshness oracle: ring of (node, len, first 16 bytes) */
typedef struct { int node; uint32_t len; unsigned char head[32]; uint64_t seq; } vsim_draw_t;
int      vsim_entropy_recent(vsim_draw_t *out, int max);
uint64_t vsim_entropy_seq(void);

/* ---- allocator ---- */
typedef struct {
    const char *file; const char *func; int line; size_t size; uint64_t index;
    void *pcs[6];             /* return addresses above the allocation (frame-pointer walk), for attributing leaked blocks to their owner */
} vsim_block_info_t;
/* function name owning a block: first frame whose function is not one of the generic buffer helpers */
void vsim_block_owner(const vsim_block_info_t *b, char *out, size_t n);
void     vsim_alloc_arm(void);                     /* reset the allocation index counter to 0 */
void     vsim_alloc_fail_clear(void);
void     vsim_alloc_fail_index(uint64_t k);        /* fail the k-th allocation after arm (may be called several times) */
void     vsim_alloc_fail_from(uint64_t k, uint64_t n);   /* burst: fail indices [k, k+n) */
void     vsim_alloc_fail_site(const char *file_substr, const char *func); /* fail every allocation at a site */
void     vsim_alloc_buggify(int realloc_moves, int poison);
uint64_t vsim_alloc_count(void);                   /* allocations since arm (incl. failed) */
uint64_t vsim_alloc_total(void);
uint64_t vsim_alloc_fired(void);
int      vsim_alloc_last_fired(vsim_block_info_t *out);  /* site of last injected failure */
size_t   vsim_alloc_live_blocks(void);
size_t   vsim_alloc_live_bytes(void);
size_t   vsim_alloc_peak_bytes(void);
size_t   vsim_alloc_max_request(void);
int      vsim_alloc_live_list(vsim_block_info_t *out, int max);
uint64_t vsim_alloc_unknown_frees(void);
void     vsim_alloc_mark(void);                    /* forget currently live blocks (they are "outside the run") */
void     vsim_alloc_track(int on);
void     vsim_alloc_site_trace(uint32_t *buf, size_t max);   /* record a digest of (file, line) of allocation #i in buf[i] (NULL: off) */
void     vsim_alloc_verbose(int on);              /* print "VSIM-ALLOC-FAIL file:func" to stderr when a failure is injected (crash attribution) */

/* ---- AEAD / CBC / sign probes ---- */
enum { VSIM_PR_GCM_INIT = 1, VSIM_PR_GCM_READY, VSIM_PR_GCM_ENC, VSIM_PR_GCM_DEC,
       VSIM_PR_CHACHA_INIT, VSIM_PR_CHACHA_ENC, VSIM_PR_CHACHA_DEC,
       VSIM_PR_CBC_INIT, VSIM_PR_CBC_ENC, VSIM_PR_CBC_DEC, VSIM_PR_SIGN };
typedef struct {
    int kind; int node; uint64_t seq;
    uint64_t key_id;          /* digest of key bytes (INIT) or context identity -> key digest */
    unsigned char nonce[16]; int nonce_len;
    uint64_t aad_digest; int aad_len;
    uint64_t pt_digest;  int pt_len;
    unsigned char pt_head[16];    /* first bytes of plaintext (TLS 1.3: handshake type; CBC: the explicit IV block before encryption) */
    unsigned char pt_tail[4];     /* last bytes of plaintext (TLS 1.3 inner type) */
    unsigned char ct_head[16];    /* CBC: first ciphertext block */
    unsigned char iv[16];         /* CBC: IV used */
    int rc;
} vsim_probe_t;
typedef void (*vsim_probe_cb)(const vsim_probe_t *p, void *arg);
void vsim_probe_set(vsim_probe_cb cb, void *arg);
/* byzantine signing: when armed for a node, the next `count` signatures produced while that node is
   current are corrupted after being made */
void vsim_sign_corrupt(int node, int count);
uint64_t vsim_sign_corrupted(void);
void     vsim_sign_mode(int mode);                /* 0: flip a byte of the produced signature; 1: sign data that differs in one bit (a well-formed signature over other data) */

/* byzantine peer (guarded hook in /repo): while `node` is current, skip the next `count` handshake messages of type `hs_type` (254 = CCS) */
void vsim_hs_skip(int node, int hs_type, int count);
void vsim_hs_skip_also(int hs_type2, int count);
uint64_t vsim_hs_skipped(void);
void vsim_hs_insert(int node, int before_type, const unsigned char *msg, size_t len);   /* byzantine node accounts a foreign message in its transcript before writing before_type */
int vsim_hs_inserted(void);

/* byzantine sender: while `node` is current, the plaintext of its nth AEAD seal from now (0-based) is edited before sealing
   (w bytes at off % (len-w+1): mode 0 = val, 1 = +1, 2 = -1, 3 = xor val), so the peer authenticates and then parses it */
void vsim_pt_mutate(int node, int nth, int64_t off, int w, int mode, uint32_t val);
void     vsim_pt_short_finished(int node, uint32_t keep);   /* the node's next Finished is sealed with only `keep` bytes of (correct) verify_data */
uint64_t vsim_pt_mutated(void);

uint64_t vsim_fnv(const void *p, size_t n);

#ifdef __cplusplus
}
#endif
#endif
