// C17 - no two different records sealed under one traffic key with the same AEAD nonce; sequence numbers bound
// into MAC/nonce strictly increase per key; CBC explicit IVs are freshly drawn per record.
// Observation is by link-time probes around the AEAD/CBC primitives (seams.c); the oracle (SealAudit) runs over
// every seal of every session in the run.
#include "proto.h"
#include "dtlssim.h"

static const int LENS[] = { 1, 16, 100, 1000, 4096, 16384, 16385, 40000 };

static Plan c17_gen(uint64_t seed, int tier, uint64_t index) {
    (void) tier; (void) index;
    Rng r(seed);
    Plan p;
    bool dtls = r.chance(2, 5);
    p.cfg["eng"] = dtls ? 1 : 0;
    if (dtls) {
        int ver = 3 + (int) r.below(2);
        p.cfg["ver"] = ver;
        static const uint16_t S10[] = { TLS_RSA_WITH_AES_128_CBC_SHA, TLS_ECDHE_ECDSA_WITH_AES_128_CBC_SHA, TLS_ECDHE_RSA_WITH_AES_128_CBC_SHA, TLS_PSK_WITH_AES_128_CBC_SHA };
        static const uint16_t S12[] = { TLS_RSA_WITH_AES_128_GCM_SHA256, TLS_ECDHE_ECDSA_WITH_AES_128_GCM_SHA256, TLS_ECDHE_RSA_WITH_AES_256_GCM_SHA384, TLS_RSA_WITH_AES_256_GCM_SHA384, TLS_ECDHE_ECDSA_WITH_AES_128_CBC_SHA256 };
        p.cfg["suite"] = (ver == 4 && r.chance(3, 4)) ? S12[r.below(5)] : S10[r.below(4)];
        if (r.chance(1, 3)) { p.cfg["resume"] = 1; }
        if (r.chance(1, 4) && suite_auth_kind((uint16_t) p.get("suite")) != KK_PSK_ONLY) { p.cfg["cauth"] = KK_RSA2048; }
        static const int PM[] = { 1500, 1500, 900, 500, 400 };
        p.cfg["pmtu"] = PM[r.below(5)];
        // loss of every flight position so that encrypted flights (Finished, resumed flights) are retransmitted
        int nf = 1 + (int) r.below(4);
        for (int i = 0; i < nf; i++) { int kind = 1 + (int) r.below(3); p.ops.push_back(Op("fate", (int64_t) r.below(14), kind, kind == FATE_DROP ? 0 : (int64_t) (5 + r.below(2500)))); }
        if (r.chance(1, 2)) { int nr = 1 + (int) r.below(3); for (int i = 0; i < nr; i++) { p.ops.push_back(Op("hreplay", (int64_t) (20 + r.below(3000)), (int64_t) r.below(14))); } }
        int na = 2 + (int) r.below(6);
        for (int i = 0; i < na; i++) { p.ops.push_back(Op("app", (int64_t) (10 + r.below(500)), (int64_t) r.below(2), (int64_t) (1 + r.below(600)))); }
        int nr = (int) r.below(5);
        for (int i = 0; i < nr; i++) { p.ops.push_back(Op("areplay", (int64_t) (30 + r.below(900)), (int64_t) r.below(64), (int64_t) r.below(3))); }
        return p;
    }
    gen_pair_cfg(r, p, false);
    p.cfg["eng"] = 0;
    if (r.chance(1, 3) && !(p.get("ver") == 2 && !p.get("tickets"))) { p.cfg["resume"] = 1; }
    if (p.get("ver") == 2 && r.chance(1, 2)) { p.cfg["tickets"] = 1; }     // TLS 1.3: NewSessionTicket sealed under the application key
    if (p.get("ver") == 2 && r.chance(1, 3)) {
        // TLS 1.3 0-RTT: early data sealed under the early traffic key, optionally across a HelloRetryRequest (second ClientHello)
        p.cfg["resume"] = 1; p.cfg["tickets"] = 1; p.cfg["early1"] = 16384; p.cfg["early"] = r.chance(3, 4) ? 16384 : 0;
        if (r.chance(1, 2)) { p.cfg["grp_c1"] = 23; p.cfg["grp_c2"] = 24; p.cfg["key_shares"] = 1; p.cfg["grp_s1"] = 24; }
        int ne = 1 + (int) r.below(3);
        for (int i = 0; i < ne; i++) { p.ops.push_back(Op("early_send", 0, LENS[r.below(5)], (int64_t) r.below(2))); }
        p.ops.push_back(Op("steps", (int64_t) (1 + r.below(5))));
        ne = (int) r.below(3);
        for (int i = 0; i < ne; i++) { p.ops.push_back(Op("early_send", 0, LENS[r.below(5)], (int64_t) r.below(2))); }
    }
    bool parked = r.chance(1, 5);
    if (parked) { int k = (int) r.below(10); if (k) { p.ops.push_back(Op("steps", k)); } }
    else { p.ops.push_back(Op("hs")); }
    int n = 2 + (int) r.below(10);
    for (int i = 0; i < n; i++) {
        switch (r.below(9)) {
        case 0: case 1: case 2: case 3: p.ops.push_back(Op("send", (int64_t) r.below(2), LENS[r.below(8)], (int64_t) r.below(2) | (r.chance(1, 8) ? 8 : 0))); break;
        case 4: p.ops.push_back(Op("pump")); break;
        case 5: {   // provoke an alert: corrupt an honest record
            int dir = (int) r.below(2);
            p.ops.push_back(Op("arm", dir, (int64_t) r.below(1u << 20), (int64_t) r.below(1u << 16), 0, r.chance(1, 2) ? "flip" : "trunc"));
            p.ops.push_back(Op("send", dir, LENS[r.below(5)])); p.ops.push_back(Op("pump"));
            break;
        }
        case 6: p.ops.push_back(Op("inject", (int64_t) r.below(2), (int64_t) r.below(100), (int64_t) r.below(50), 0, r.chance(1, 2) ? "garbage" : "replay")); break;
        case 7: if (r.chance(1, 2)) { p.ops.push_back(Op("hreq")); p.ops.push_back(Op("pump")); } else { p.ops.push_back(Op("close", (int64_t) r.below(2))); } break;
        case 8: p.ops.push_back(Op("steps", (int64_t) (1 + r.below(4)))); break;
        }
    }
    p.ops.push_back(Op("pump"));
    return p;
}

// aimed plans: TLS 1.3 early data written before and after every early delivery point, with and without HelloRetryRequest, per suite
static std::vector<Plan> c17_fixed(int tier) {
    (void) tier;
    std::vector<Plan> v;
    // long-lived connections: more than 2^16 records in one direction under one traffic key (TLS 1.3: nonce = iv XOR 64-bit sequence number;
    // TLS 1.2 GCM: explicit 64-bit sequence number)
    {
        static const uint16_t S[] = { TLS_AES_128_GCM_SHA256, TLS_CHACHA20_POLY1305_SHA256, TLS_AES_256_GCM_SHA384, TLS_ECDHE_ECDSA_WITH_AES_128_GCM_SHA256 };
        for (int si = 0; si < 4; si++) { for (int dir = 0; dir < 2; dir++) {
            if (!tier && ((si + dir) & 1)) { continue; }      // quick: half of the grid
            Plan p; p.seed = 171000 + (uint64_t) (si * 2 + dir);
            p.cfg["eng"] = 0; p.cfg["ver"] = si < 3 ? 2 : 1; p.cfg["suite"] = S[si]; p.cfg["sid_kind"] = KK_EC256;
            p.ops.push_back(Op("hs")); p.ops.push_back(Op("burst", dir, 65536 + 300)); p.ops.push_back(Op("send", 1 - dir, 30)); p.ops.push_back(Op("pump"));
            v.push_back(p);
        } }
    }
    // empty application records between ordinary ones (TLS: legal, some suites refuse them), per record-protection family and direction
    {
        static const struct { int ver; uint16_t suite; } ER[] = { { 1, TLS_RSA_WITH_AES_128_GCM_SHA256 }, { 1, TLS_ECDHE_RSA_WITH_AES_256_GCM_SHA384 }, { 1, TLS_RSA_WITH_AES_128_CBC_SHA256 }, { 0, TLS_RSA_WITH_AES_128_CBC_SHA },
                                                            { 2, TLS_AES_128_GCM_SHA256 }, { 2, TLS_CHACHA20_POLY1305_SHA256 } };
        for (int i = 0; i < 6; i++) { for (int dir = 0; dir < 2; dir++) {
            Plan p; p.seed = 173000 + (uint64_t) (i * 2 + dir);
            p.cfg["eng"] = 0; p.cfg["ver"] = ER[i].ver; p.cfg["suite"] = ER[i].suite; if (ER[i].ver == 2) { p.cfg["sid_kind"] = KK_EC256; }
            p.ops.push_back(Op("hs")); p.ops.push_back(Op("send", dir, 40)); p.ops.push_back(Op("send", dir, 0, 8)); p.ops.push_back(Op("send", dir, 50)); p.ops.push_back(Op("pump"));
            p.ops.push_back(Op("send", dir, 0, 8)); p.ops.push_back(Op("send", dir, 0, 8)); p.ops.push_back(Op("send", 1 - dir, 0, 8)); p.ops.push_back(Op("send", dir, 60)); p.ops.push_back(Op("send", 1 - dir, 61)); p.ops.push_back(Op("pump"));
            v.push_back(p);
        } }
    }
    // an alert the connection survives (no_renegotiation warning, answer to a HelloRequest), then more records from the same sender
    {
        static const struct { int ver; uint16_t suite; } HR[] = { { 4, TLS_RSA_WITH_AES_128_GCM_SHA256 }, { 4, TLS_ECDHE_RSA_WITH_AES_128_CBC_SHA256 }, { 3, TLS_RSA_WITH_AES_128_CBC_SHA }, { 1, TLS_ECDHE_RSA_WITH_AES_128_GCM_SHA256 },
                                                            { 1, TLS_RSA_WITH_AES_128_CBC_SHA256 }, { 0, TLS_RSA_WITH_AES_128_CBC_SHA } };
        for (int i = 0; i < 6; i++) { for (int pre = 0; pre < 2; pre++) {
            Plan p; p.seed = 172000 + (uint64_t) (i * 2 + pre);
            p.cfg["eng"] = 0; p.cfg["ver"] = HR[i].ver; p.cfg["suite"] = HR[i].suite; if (HR[i].ver >= 3) { p.cfg["pmtu"] = 1500; }
            p.ops.push_back(Op("hs"));
            if (pre) { p.ops.push_back(Op("send", 0, 40)); p.ops.push_back(Op("send", 1, 40)); p.ops.push_back(Op("pump")); }
            p.ops.push_back(Op("hreq")); p.ops.push_back(Op("pump"));
            p.ops.push_back(Op("send", 0, 50)); p.ops.push_back(Op("send", 1, 50)); p.ops.push_back(Op("pump")); p.ops.push_back(Op("send", 0, 60)); p.ops.push_back(Op("pump"));
            p.ops.push_back(Op("hreq")); p.ops.push_back(Op("pump")); p.ops.push_back(Op("send", 0, 70)); p.ops.push_back(Op("close", 0)); p.ops.push_back(Op("pump"));
            v.push_back(p);
        } }
    }
    static const uint16_t S13[] = { TLS_AES_128_GCM_SHA256, TLS_AES_256_GCM_SHA384, TLS_CHACHA20_POLY1305_SHA256 };
    for (int su = 0; su < 3; su++) {
        for (int hrr = 0; hrr < 2; hrr++) {
            for (int k = 1; k <= 5; k++) {
                for (int wb = 0; wb < 2; wb++) {
                    Plan p; p.seed = 170000 + (uint64_t) (su * 1000 + hrr * 100 + k * 10 + wb);
                    p.cfg["eng"] = 0; p.cfg["ver"] = 2; p.cfg["suite"] = S13[su]; p.cfg["sid_kind"] = KK_EC256; p.cfg["resume"] = 1; p.cfg["tickets"] = 1; p.cfg["early1"] = 16384; p.cfg["early"] = 16384;
                    if (hrr) { p.cfg["grp_c1"] = 23; p.cfg["grp_c2"] = 24; p.cfg["key_shares"] = 1; p.cfg["grp_s1"] = 24; }
                    p.ops.push_back(Op("early_send", 0, 100, wb)); p.ops.push_back(Op("steps", k)); p.ops.push_back(Op("early_send", 0, 120, wb));
                    p.ops.push_back(Op("hs")); p.ops.push_back(Op("send", 0, 300)); p.ops.push_back(Op("send", 1, 300)); p.ops.push_back(Op("pump"));
                    v.push_back(p);
                }
            }
        }
    }
    return v;
}

static RunResult c17_exec(const Plan &p) {
    RunResult res;
    vsim_run_reset(p.seed);
    sim_global_open();
    if (p.get("eng") == 1) {
        DtlsSim s(p);
        if (!s.start()) { res.harness_error = true; res.detail = s.setup_detail; }
        else {
            bool both = s.run_plan(true);
            res.count(both ? "hs.completed" : "hs.not_completed");
            SealAudit &a = s.audit;
            if (!a.violation_cls.empty()) { res.violate(a.violation_cls, std::string(ver_name(s.pc.version)) + "," + a.violation_ctx + (s.post_completion_resend ? ",after_final_flight_resend" : ""), a.violation_detail); }
            for (auto &kv : a.counters) { res.counters[kv.first] += kv.second; }
            for (auto &kv : s.counters) { res.counters[kv.first] += kv.second; }
            res.nontrivial = a.counters["seal.aead"] + a.counters["seal.cbc"] > 0;
            res.fingerprint = s.fingerprint();
            res.sim_ms = (double) s.now;
            res.states.push_back(std::string(ver_name(s.pc.version)) + "," + suite_name((uint16_t) p.get("suite")) + ",resends" + std::to_string(s.counters["flight_resent"] > 3 ? 3 : s.counters["flight_resent"]));
        }
    } else {
        ProtoRun pr(p);
        pr.run();
        if (pr.setup_failed) { res.harness_error = true; res.detail = pr.setup_detail + " cfg=" + cfg_label(p); }
        else {
            SealAudit &a = pr.audit;
            if (!a.violation_cls.empty()) { res.violate(a.violation_cls, std::string(ver_name(pr.pc.version)) + "," + a.violation_ctx, a.violation_detail); }
            for (auto &kv : a.counters) { res.counters[kv.first] += kv.second; }
            for (auto &kv : pr.obs.counters) { res.counters[kv.first] += kv.second; }
            res.nontrivial = a.counters["seal.aead"] + a.counters["seal.cbc"] > 0;
            res.fingerprint = pr.fingerprint();
            res.states.push_back(cfg_label(p) + ",dead" + std::to_string(pr.obs.death[0].dead + pr.obs.death[1].dead));
        }
    }
    sim_global_close();
    return res;
}

static ModuleRegistrar reg({ "C17", "proto+dtls", "exploration",
    "every AEAD seal and CBC record encryption of every session in a run is observed by link-time probes (key-schedule digest, nonce, AAD digest, plaintext digest, first/last ciphertext block) and audited: "
    "no two seals under one key with equal nonce unless byte-identical, TLS 1.2 GCM explicit nonce strictly increasing, each CBC explicit IV block equals a fresh entropy draw made for that record, wire IVs pairwise distinct per key. "
    "workloads: TLS runs with data (up to multi-record writes), alerts provoked by corruption, closure, replays, TLS 1.3 handshake/application phases with NewSessionTicket, resumption; "
    "TLS 1.3 0-RTT (early data written before and after every early delivery point, with and without HelloRetryRequest); DTLS runs with loss/dup/delay so encrypted flights are retransmitted, replays, resumed handshakes. non-trivial = at least one record was sealed; distinct = distinct history fingerprint",
    c17_gen, c17_exec, 4000, 120000, 75, 1200,
    { "core (incl. osdep.c)", "crypto (the primitives run unmodified; the probes forward to them)", "matrixssl" },
    { "transport", "attacker", "applications", "clock", "entropy (also the reference for IV freshness)", "allocator front-end", "AEAD/CBC probes (link-time wraps, observe only)" },
    { "key identity is the digest of the first 32 bytes of the cipher context (key schedule), scoped to the owning ssl_t", "entropy failures are not injected here (covered by C19)" },
    "asan", c17_fixed, false });
