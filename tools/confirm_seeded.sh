#!/bin/bash
# tools/confirm_seeded.sh <ID> <worktree> : confirm a sub-agent's seeded change in its scratch worktree
# (demo fails with the change, passes without; pinned tests pass with the change), then store it under seeded/<ID>/.
id="$1"; wt="$2"; name="${3:-$id}"
cd "$wt" || exit 2
log=/tmp/confirm_$name.log; : > $log
run_tests() { local rc=0; for t in algorithmTest eccTest rsaTest hmacTest cryptoOpen; do ( cd crypto/test && timeout 900 ./$t > /tmp/confirm_t.out 2>&1 ); r=$?; f=$(grep -c -E 'FAILED|FAIL:' /tmp/confirm_t.out); echo "  test $t rc=$r fail-lines=$f" >> $log; [ $r -eq 0 ] && [ "$f" -eq 0 ] || rc=1; done; return $rc; }
git diff --quiet -- core crypto matrixssl && { git apply change.patch || { echo "patch does not apply"; exit 2; }; }
make -j16 > /tmp/confirm_make.log 2>&1 || { echo "build with change FAILED" | tee -a $log; exit 1; }
bash demo/build.sh >> /tmp/confirm_make.log 2>&1
( cd demo && timeout 600 ./demo > /tmp/confirm_demo_with.out 2>&1 ); with=$?
echo "demo with change: rc=$with" >> $log
run_tests; tests=$?
echo "pinned tests with change: $([ $tests -eq 0 ] && echo pass || echo FAIL)" >> $log
git apply -R change.patch || { echo "cannot revert"; exit 2; }
make -j16 > /tmp/confirm_make.log 2>&1
bash demo/build.sh >> /tmp/confirm_make.log 2>&1
( cd demo && timeout 600 ./demo > /tmp/confirm_demo_without.out 2>&1 ); without=$?
echo "demo without change: rc=$without" >> $log
cat $log
if [ $with -ne 0 ] && [ $without -eq 0 ] && [ $tests -eq 0 ]; then
  d=/verif/seeded/$name; mkdir -p $d/demo
  cp change.patch $d/patch.diff; cp demo/demo.c demo/build.sh $d/demo/; cp NOTES.md $d/NOTES.md 2>/dev/null
  tail -5 /tmp/confirm_demo_with.out > $d/demo_output_with_change.txt
  cp $log $d/confirmation.log
  echo CONFIRMED
else
  echo NOT-CONFIRMED; exit 1
fi
