#!/usr/bin/env python3
# tools/status_table.py : print the DESIGN.md 16.2 table from /verif/evidence/*.json (what each check's last run covered)
import json, glob, os
rows = []
for f in sorted(glob.glob('/verif/evidence/C*.json')):
    d = json.load(open(f))
    cov = d.get('coverage', {})
    c = cov.get('counters', {})
    runs = cov.get('evaluations', '?')
    nt = cov.get('distinct_nontrivial', cov.get('distinct_nontrivial_runs', '?'))
    viol = d.get('violations', [])
    second = d.get('second_build_pass') or cov.get('second_build_pass')
    extra = ''
    if second:
        sc = second.get('coverage', second)
        extra = ' + %s' % sc.get('evaluations', sc.get('coverage', {}).get('evaluations', '?'))
    res = 'clean' if not viol else '%d violation entries' % len(viol)
    rows.append((d.get('property_id'), '%s%s' % (runs, extra), nt, d.get('wall_s', '?'), d.get('tier'), d.get('seed'), res, cov.get('regression_replays_rerun', 0)))
print('| id  | runs | distinct non-trivial | wall s | tier/seed | regression replays | result on the current tree |')
print('|-----|------|----------------------|--------|-----------|--------------------|----------------------------|')
for r in rows:
    print('| %s | %s | %s | %s | %s/%s | %s | %s |' % (r[0], r[1], r[2], int(float(r[3])) if r[3] != '?' else '?', r[4], r[5], r[7], r[6]))
