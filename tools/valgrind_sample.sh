#!/bin/bash
# tools/valgrind_sample.sh [N] : run N plans (default 40: fixed plans first, then seeded ones) of every check under valgrind memcheck with the
# plain (unsanitised, DWARF 4) build and list distinct error origins.  Catches what ASan/UBSan cannot see: use of uninitialised stack values.
# (Heap blocks come pre-filled with 0xA5 from the allocator seam, so memcheck considers them defined: this is about locals.)
cd /verif
n=${1:-40}
python3 tools/gen_build.py plain > /dev/null 2>&1 || { echo "plain build failed"; exit 2; }
out=/tmp/valgrind_sample; rm -rf $out; mkdir -p $out
for id in C01 C02 C04 C06 C07 C08 C10 C14 C15 C16 C17 C18 C19; do
  for i in $(seq 0 $((n-1))); do
    idx=$(( i < n/2 ? i * 37 : 3000 + i * 101 ))
    echo "$id $idx"
  done
done | xargs -P 6 -L 1 bash -c 'timeout 900 valgrind -q --error-exitcode=9 --num-callers=12 build/plain/vsim run1 $0 $1 > /tmp/valgrind_sample/$0.$1.out 2>&1; echo "$0 $1 rc=$?" >> /tmp/valgrind_sample/summary'
# the regression corpus too (some entries, e.g. uninitialised-stack uses, are visible to memcheck only)
for f in regress/*.json; do b=$(basename $f .json); timeout 900 valgrind -q --error-exitcode=9 --num-callers=12 build/plain/vsim replay $f --inproc > $out/regress.$b.out 2>&1; echo "regress $b rc=$?" >> $out/summary; done
echo "runs: $(wc -l < $out/summary)  with memcheck errors: $(grep -c 'rc=9' $out/summary)"
grep -h -A6 -E "Conditional jump|Use of uninitialised|Invalid read|Invalid write|Syscall param" $out/*.out | grep -E "^==[0-9]+==    (at|by)" | sed 's/^==[0-9]*== *//' | grep -v "vsim_\|sim/" | sort | uniq -c | sort -rn | head -30
