#!/bin/bash
# Build /repo with the guard (MATRIXSSL_VERIF) off - the repository's own makefiles never define it -
# and run the pinned test executables.  Exit 0 iff every one exits 0 and prints no FAIL line.
cd /repo || exit 2
make -j"$(nproc)" > /tmp/baseline_off_make.log 2>&1 || { tail -30 /tmp/baseline_off_make.log; echo "baseline: build failed"; exit 1; }
rc=0
for t in crypto/test/algorithmTest crypto/test/eccTest crypto/test/rsaTest crypto/test/hmacTest crypto/test/cryptoOpen; do
  [ -x "$t" ] || { echo "baseline: missing $t"; rc=1; continue; }
  out=$( cd "$(dirname "$t")" && timeout 1800 "./$(basename "$t")" 2>&1 ); r=$?
  nfail=$(printf '%s\n' "$out" | grep -c -E 'FAILED|FAIL:|\bfailed\b' )
  npass=$(printf '%s\n' "$out" | grep -c -E 'PASSED|PASS|OK' )
  echo "baseline: $t rc=$r pass-lines=$npass fail-lines=$nfail"
  if [ $r -ne 0 ] || [ "$nfail" -ne 0 ]; then rc=1; printf '%s\n' "$out" | grep -E 'FAILED|FAIL:|failed' | head; fi
done
exit $rc
