#!/bin/bash
# tools/process_seeded.sh <ID> <worktree> <name> : confirm a sub-agent's seeded change, check that it applies to /repo, run the property's check against it
id="$1"; wt="$2"; name="$3"
bash /verif/tools/confirm_seeded.sh "$id" "$wt" "$name" 2>&1 | tail -1
git -C /repo apply --check /verif/seeded/$name/patch.diff 2>&1 | tail -1 || { echo "DOES NOT APPLY"; exit 1; }
/verif/tools/try_seeded.sh "$name" "$id" 2>&1 | grep -E 'VIOLATION|class=|^vsim|KNOWN' | head -6 | cut -c1-230
