#!/usr/bin/env python3
"""Derive the library compile commands from /repo's own makefiles (dry run) and
build them, plus the simulator sources under /verif/sim, into
/verif/build/<variant>/.  Nothing is written under /repo except the
configuration headers `make check-config` would create when absent.

usage: gen_build.py <variant> [--repo DIR] [--out DIR]     variant: asan | tsan | plain
"""
import os, re, shlex, subprocess, sys, hashlib

VERIF = os.path.dirname(os.path.dirname(os.path.abspath(__file__)))

VARIANT_FLAGS = {
    "asan":  ["-O1", "-g", "-fno-omit-frame-pointer", "-fsanitize=address,undefined",
              "-fsanitize-recover=undefined", "-fno-sanitize=function"],
    "tsan":  ["-O1", "-g", "-fno-omit-frame-pointer", "-fsanitize=thread"],
    "plain": ["-O1", "-gdwarf-4", "-fno-omit-frame-pointer"],
    "dbg":   ["-O0", "-g", "-fno-omit-frame-pointer"],
}

ALLOC_DEFS = [
    "-DMalloc(s)=vsim_malloc((s),__FILE__,__func__,__LINE__)",
    "-DCalloc(n,s)=vsim_calloc((n),(s),__FILE__,__func__,__LINE__)",
    "-DRealloc(p,s)=vsim_realloc((p),(s),__FILE__,__func__,__LINE__)",
    "-DFree(p)=vsim_free((p),__FILE__,__func__,__LINE__)",
    "-include", os.path.join(VERIF, "sim", "vsim_alloc.h"),
]

# harness state shared by all simulated threads (allocation table, clocks, entropy streams, probes): accessed under the scheduler's
# hidden hand-off, so it must not be instrumented by ThreadSanitizer (it would be reported as racing with itself)
NOTSAN_IN_TSAN = {"seams.c"}

SKIP_SRC = re.compile(r"(sfzutf|testsupp|/test/|matrixsslNet\.c|matrixsslSocket\.c|psStat\.c)")

WRAPS = ["clock_gettime", "gettimeofday", "time", "open", "read", "close",
         "psSign",
         "psAesInitGCM", "psAesReadyGCM", "psAesEncryptGCM", "psAesDecryptGCM",
         "psChacha20Poly1305IetfInit", "psChacha20Poly1305IetfEncrypt",
         "psChacha20Poly1305IetfDecrypt",
         "psAesInitCBC", "psAesEncryptCBC", "psAesDecryptCBC",
         "pthread_mutex_lock", "pthread_mutex_unlock"]


def sh(cmd, cwd=None):
    return subprocess.run(cmd, cwd=cwd, shell=True, check=False, stdout=subprocess.PIPE,
                          stderr=subprocess.DEVNULL, text=True).stdout


def ensure_config(repo):
    need = [("crypto/cryptoConfig.h", "configs/default/cryptoConfig.h"),
            ("matrixssl/matrixsslConfig.h", "configs/default/matrixsslConfig.h"),
            ("core/config/coreConfig.h", "configs/default/coreConfig.h")]
    for dst, src in need:
        d = os.path.join(repo, dst)
        if not os.path.exists(d):
            import shutil
            shutil.copyfile(os.path.join(repo, src), d)


def lib_commands(repo):
    """[(srcpath_abs, [flags...])] from `make -n -B` of the three library dirs."""
    out = []
    for sub in ("core", "crypto", "matrixssl"):
        d = os.path.join(repo, sub)
        txt = sh("make -n -B", cwd=d)
        for line in txt.splitlines():
            line = line.strip().replace("`pwd`", d).replace("$(pwd)", d)
            if not re.match(r"^(cc|gcc|clang)\s", line) or " -c" not in line:
                continue
            toks = shlex.split(line)
            src = None
            flags = []
            i = 1
            while i < len(toks):
                t = toks[i]
                if t == "-o":
                    i += 2
                    continue
                if t == "-c":
                    i += 1
                    continue
                if t.endswith(".c") and not t.startswith("-"):
                    src = t
                elif t.startswith("-I"):
                    p = t[2:]
                    if not os.path.isabs(p):
                        p = os.path.normpath(os.path.join(d, p))
                    flags.append("-I" + p)
                elif re.match(r"^-O\d$|^-O[sg]$|^-g", t) or t in ("-Wall", "-Werror", "-fomit-frame-pointer"):
                    pass
                else:
                    flags.append(t)
                i += 1
            if not src:
                continue
            srcabs = os.path.normpath(os.path.join(d, src))
            if SKIP_SRC.search(srcabs):
                continue
            if not os.path.exists(srcabs):
                continue
            out.append((srcabs, flags))
    # de-duplicate (a file may be listed twice by recursive makes)
    seen = {}
    for s, f in out:
        seen.setdefault(s, f)
    return sorted(seen.items())


def q(a):
    return " ".join(shlex.quote(x) for x in a)


def main():
    args = sys.argv[1:]
    variant = args[0]
    repo = "/repo"
    outdir = None
    i = 1
    while i < len(args):
        if args[i] == "--repo":
            repo = args[i + 1]; i += 2
        elif args[i] == "--out":
            outdir = args[i + 1]; i += 2
        else:
            i += 1
    outdir = outdir or os.path.join(VERIF, "build", variant)
    os.makedirs(os.path.join(outdir, "lib"), exist_ok=True)
    os.makedirs(os.path.join(outdir, "sim"), exist_ok=True)
    ensure_config(repo)
    vflags = VARIANT_FLAGS[variant]
    cmds = lib_commands(repo)
    if len(cmds) < 100:
        print("gen_build: only %d compile commands derived from make -n; refusing" % len(cmds), file=sys.stderr)
        sys.exit(2)
    cc = "clang"
    cxx = "clang++"
    mk = []
    objs = []
    inc = set()
    # objects depend on a stamp named after the hash of all flags, so a flag change rebuilds everything
    fh = hashlib.md5(repr((vflags, ALLOC_DEFS, WRAPS, [f for _, f in cmds])).encode()).hexdigest()[:12]
    stamp = os.path.join(outdir, "flags." + fh)
    if not os.path.exists(stamp):
        for fn in os.listdir(outdir):
            if fn.startswith("flags."):
                os.unlink(os.path.join(outdir, fn))
        open(stamp, "w").write(fh)
    for src, flags in cmds:
        for f in flags:
            if f.startswith("-I"):
                inc.add(f)
        h = hashlib.md5(src.encode()).hexdigest()[:6]
        obj = os.path.join(outdir, "lib", os.path.basename(src)[:-2] + "_" + h + ".o")
        objs.append(obj)
        cl = [cc, "-c", "-o", obj, src] + flags + vflags + ALLOC_DEFS + \
             ["-DMATRIXSSL_VERIF", "-w", "-MMD", "-MF", obj[:-2] + ".d"]
        mk.append("%s: %s %s\n\t@%s\n" % (obj, src, stamp, q(cl)))
    incs = sorted(inc) + ["-I" + repo, "-I" + os.path.join(repo, "matrixssl"), "-I" + os.path.join(VERIF, "sim")]
    simdir = os.path.join(VERIF, "sim")
    simobjs = []
    for fn in sorted(os.listdir(simdir)):
        p = os.path.join(simdir, fn)
        if fn.endswith(".c"):
            obj = os.path.join(outdir, "sim", fn[:-2] + ".o")
            fl = list(vflags)
            if fn.startswith("nosan_") or (variant == "tsan" and fn in NOTSAN_IN_TSAN):
                fl = [f for f in fl if not f.startswith("-fsanitize") and not f.startswith("-fno-sanitize")]
            cl = [cc, "-c", "-o", obj, p] + incs + fl + ["-DMATRIXSSL_VERIF", "-DVSIM_VARIANT_" + variant.upper(), "-Wall", "-Wno-unused-function", "-MMD", "-MF", obj[:-2] + ".d"]
        elif fn.endswith(".cc"):
            obj = os.path.join(outdir, "sim", fn[:-3] + ".o")
            fl = list(vflags)
            if fn.startswith("nosan_"):
                fl = [f for f in fl if not f.startswith("-fsanitize") and not f.startswith("-fno-sanitize")]
            cl = [cxx, "-std=c++17", "-c", "-o", obj, p] + incs + fl + ["-DMATRIXSSL_VERIF", "-DVSIM_VARIANT_" + variant.upper(), "-Wall", "-Wno-unused-function", "-Wno-unused-variable", "-MMD", "-MF", obj[:-2] + ".d"]
        else:
            continue
        simobjs.append(obj)
        mk.append("%s: %s %s\n\t@%s\n" % (obj, p, stamp, q(cl)))
    lib = os.path.join(outdir, "libmx.a")
    mk.append("%s: %s\n\t@rm -f %s && ar rcs %s %s\n" % (lib, " ".join(objs), lib, lib, " ".join(objs)))
    exe = os.path.join(outdir, "vsim")
    wrap = ",".join("--wrap=" + w for w in WRAPS)
    link = [cxx, "-o", exe] + simobjs + [lib] + vflags + ["-Wl,--gc-sections", "-Wl," + wrap, "-lpthread", "-ldl"]
    # OpenSSL (C10 peer) linked statically so the time/clock wraps cover it
    link += ["-Wl,-Bstatic", "-lssl", "-lcrypto", "-Wl,-Bdynamic"]
    mk.append("%s: %s %s\n\t@%s\n" % (exe, " ".join(simobjs), lib, q(link)))
    mkpath = os.path.join(outdir, "Makefile")
    body = "all: %s\n.PHONY: all\n" % exe + "\n".join(mk) + "\n-include %s/lib/*.d %s/sim/*.d\n" % (outdir, outdir)
    old = open(mkpath).read() if os.path.exists(mkpath) else ""
    if old != body:
        open(mkpath, "w").write(body)
    r = subprocess.run(["make", "-s", "-j", str(os.cpu_count() or 8), "-f", mkpath, "all"])
    sys.exit(r.returncode)


if __name__ == "__main__":
    main()
