#!/bin/bash
# How sim/assets/pathlen_chain.h was made (openssl ca with explicit start dates: the simulated wall clock starts at 2026-06-01).
# The committed header is the asset; this script is documentation and regenerates an equivalent one (fresh keys) into $1.
M=$(mktemp -d); out="${1:-/dev/stdout}"
cat > $M/ca.cnf <<CNF
[ca]
default_ca=myca
[myca]
new_certs_dir=$M
database=$M/index.txt
serial=$M/serial
default_md=sha256
policy=pol
unique_subject=no
[pol]
commonName=supplied
[v3_root]
basicConstraints=critical,CA:TRUE,pathlen:0
keyUsage=critical,keyCertSign,cRLSign
subjectKeyIdentifier=hash
[v3_ica]
basicConstraints=critical,CA:TRUE
keyUsage=critical,keyCertSign,cRLSign
subjectKeyIdentifier=hash
authorityKeyIdentifier=keyid
[v3_leaf]
basicConstraints=CA:FALSE
keyUsage=critical,digitalSignature,keyAgreement
extendedKeyUsage=serverAuth,clientAuth
subjectAltName=DNS:localhost
subjectKeyIdentifier=hash
authorityKeyIdentifier=keyid
CNF
touch $M/index.txt; echo 1000 > $M/serial
for n in root ica leaf; do openssl ecparam -name prime256v1 -genkey -noout -out $M/$n.key 2>/dev/null; done
openssl req -new -key $M/root.key -subj "/CN=vsim pathlen0 root" -out $M/root.csr
openssl req -new -key $M/ica.key -subj "/CN=vsim unauthorised sub CA" -out $M/ica.csr
openssl req -new -key $M/leaf.key -subj "/CN=localhost" -out $M/leaf.csr
D="-startdate 20200101000000Z -enddate 20491231235959Z -notext"
openssl ca -batch -config $M/ca.cnf -selfsign -keyfile $M/root.key -in $M/root.csr -out $M/root.pem -extensions v3_root $D 2>/dev/null
openssl ca -batch -config $M/ca.cnf -keyfile $M/root.key -cert $M/root.pem -in $M/ica.csr -out $M/ica.pem -extensions v3_ica $D 2>/dev/null
openssl ca -batch -config $M/ca.cnf -keyfile $M/ica.key -cert $M/ica.pem -in $M/leaf.csr -out $M/leaf.pem -extensions v3_leaf $D 2>/dev/null
for n in root ica leaf; do openssl x509 -in $M/$n.pem -outform DER -out $M/$n.der; done; openssl ec -in $M/leaf.key -outform DER -out $M/leafkey.der 2>/dev/null
cat $M/leaf.der $M/ica.der > $M/chain.der
( for n in chain:VSIM_PL_CHAIN leafkey:VSIM_PL_KEY root:VSIM_PL_ROOT; do f=${n%%:*}; s=${n##*:}; echo "static const unsigned char $s[] = {"; xxd -i < $M/$f.der; echo "};"; done ) > "$out"
rm -rf $M
