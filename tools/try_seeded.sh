#!/bin/bash
# tools/try_seeded.sh <seeded-name> <property> [extra check args]
# Run a property's check against a stored seeded change WITHOUT touching /repo or /verif/evidence: the change is applied in a scratch
# worktree of /repo's HEAD, the library is built from there into build/try_<variant>, and the check writes to a scratch VERIF_DIR.
# (Equivalent to `git -C /repo apply`, `./check`, `git -C /repo checkout -- .`, but safe while background runs use /repo.)
name="$1"; prop="$2"; shift 2
tag="${TRY_TAG:-}"; wt=/tmp/wt_try$tag; vd=/tmp/vd_try_$$
git -C /repo worktree remove --force "$wt" > /dev/null 2>&1; rm -rf "$wt"
git -C /repo worktree add --detach "$wt" HEAD > /dev/null 2>&1 || { echo "cannot create worktree"; exit 2; }
cleanup() { git -C /repo worktree remove --force "$wt" > /dev/null 2>&1; rm -rf "$vd"; }
trap cleanup EXIT
git -C "$wt" apply /verif/seeded/$name/patch.diff || { echo "patch does not apply"; exit 2; }
mkdir -p "$vd/findings"; cp /verif/findings/known_findings.txt "$vd/findings/"; cp -r /verif/regress "$vd/" 2>/dev/null
cd /verif
variants="asan"; [ "$prop" = "C20" ] && variants="asan tsan"
for v in $variants; do
  python3 tools/gen_build.py $v --repo "$wt" --out /verif/build/try${tag}_$v > /dev/null 2>&1 || { echo "build failed ($v)"; exit 2; }
  VERIF_DIR="$vd" build/try${tag}_$v/vsim check "$prop" "$@" 2>/dev/null | grep -E "^VIOLATION|^KNOWN|class=|^vsim:.*runs \(" | sed "s|$vd|<scratch>|" | cut -c1-260 | head -12
done
