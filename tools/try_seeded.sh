#!/bin/bash
# tools/try_seeded.sh <seeded-name> <property> [extra check args]: apply a stored seeded change to /repo, run the check, undo.
name="$1"; prop="$2"; shift 2
cd /repo || exit 2
git diff --quiet || { echo "/repo has uncommitted changes"; exit 2; }
git apply /verif/seeded/$name/patch.diff || { echo "patch does not apply"; exit 2; }
cd /verif; ./check "$prop" "$@" 2>/dev/null | grep -E "^VIOLATION|^KNOWN|class=|^vsim:.*runs \(" | cut -c1-260 | head -12
git -C /repo checkout -- .
