#!/usr/bin/env python3
"""Regenerate /verif/MANIFEST.json from the table below (single source of truth for the registered checks)."""
import json, subprocess

def repo_commits(prefix):
    out = subprocess.run(["git", "-C", "/repo", "log", "--format=%h %s"], capture_output=True, text=True).stdout
    return [l.split()[0] for l in out.splitlines() if l.split(" ", 1)[1].startswith(prefix)]

TRUSTED = ("Trusted base: the simulator (sim/*.cc, seams.c), the adversary's own record parser, clang sanitizers, and the oracle as written in DESIGN.md section 10. "
           "Sampling, not proof: a clean batch is evidence that no violating schedule/fault sequence was found in the explored space.")

CHECKS = {
    "C01": dict(engine="proto", level="exploration", design="10/C01",
        technique="deterministic simulation: seeded adversarial record injection at parked handshake states, prefix/attribution oracle",
        text="Seeded search (plus fixed aimed plans) over handshake parking points x attacker records x versions/roles with the whole client+server pair, network, clock and entropy under one PRNG; "
             "oracle: every delivered byte is the next byte the peer application sent, delivery only after completion, encode refused before completion."),
    "C02": dict(engine="proto", level="exploration", design="10/C02",
        technique="deterministic simulation: seeded on-path ciphertext edit scripts on established connections, prefix + must-die oracle",
        text="Seeded edit scripts (flip/truncate/extend/length/type/version/epoch/seq/drop/dup/swap/replay/reflect/cross-session) over CBC, GCM and ChaCha20 suites and all versions; thorough adds an every-bit sweep of a short record per family. "
             "Oracle: delivered stream is a prefix of the sent stream, nothing from or after a tampered unit is delivered, a modified protected TLS record kills the receiver; fault-free control must deliver everything."),
    "C15": dict(engine="proto", level="exploration", design="10/C15",
        technique="deterministic simulation: seeded death triggers at arbitrary session points followed by continuations, stays-dead oracle with seal probe",
        text="Every way of killing a session (alerts of each description, corrupt/oversize/illegal records, closure) at parked or established states, then continuations (honest traffic, replays, local sends); "
             "oracle: no delivery, no successful encode, no non-alert record sealed or emitted, no progress code after death; injected fatal alerts are judged by harness ground truth, not by what the API reports."),
    "C18": dict(engine="chunk", level="exploration", design="10/C18",
        technique="deterministic simulation: metamorphic replay of one endpoint's recorded inbound stream under seeded chunk/drain partitions with pinned entropy and clock",
        text="A reference run records each endpoint's inbound bytes, application actions and outputs; the endpoint is re-created alone with the same per-node entropy stream and frozen clock and fed the same bytes under byte-at-a-time, record-aligned, "
             "record-straddling, header-split and random partitions with partial-send drain patterns (never across a causality barrier); completion, delivered data, alerts, death and byte-identical output must match. Full, resumed, client-auth and failing handshakes plus data/closure."),
    "C16": dict(engine="dtls", level="exploration", design="10/C16",
        technique="deterministic discrete-event simulation: seeded per-datagram drop/duplicate/delay fates, application-style resend timers on a simulated clock, replay of captured datagrams; at-most-once and bounded-liveness oracles",
        text="DTLS 1.0/1.2 client+server over an event-queue datagram network with 1 s doubling resend timers; per-datagram fates keyed by emission index, replays of every kind of captured record during and after the handshake, tagged application datagrams; "
             "fixed plans enumerate all single-drop / single-duplicate handshake schedules per cfg and all arrival orders of short application bursts. Oracles: each datagram delivered at most once and equal to a sent one, established sessions survive replays, "
             "fresh traffic still flows after faults stop, completion within 600 simulated s and 12 timer rounds after the last fault. Two recorded known findings (bumped-epoch final-flight resend)."),
    "C17": dict(engine="proto+dtls", level="exploration", design="10/C17",
        technique="deterministic simulation with link-time seal probes: every AEAD seal / CBC record encryption of seeded TLS and DTLS (loss, retransmission, alert, resumption) histories is audited for nonce reuse, sequence monotonicity and IV freshness against the simulated entropy log",
        text="Probes around psAes*GCM, psChacha20Poly1305Ietf* and psAesEncryptCBC record key digest, nonce, AAD and plaintext digests for every seal of every session; the audit runs over the whole recorded history of each simulated run "
             "(TLS data/alert/closure/replay/resumption/TLS 1.3 phases; DTLS with drop/dup/delay-driven retransmission of encrypted flights and replays). CBC explicit IVs on the wire must be encryptions of fresh, never reused 16-byte draws of the simulated entropy source."),
    "C14": dict(engine="hist", level="exploration", design="10/C14",
        technique="deterministic simulation of multi-connection histories on a simulated clock with a reference model of issued resumption state; seeded clock jumps, cache pressure, key rotation and byte edits of stored client state",
        text="Histories over three clients, one server key set and a foreign one: full / resumed (id, RFC 5077 ticket, TLS 1.3 PSK) connections, clock advances from seconds to 60 days, fatal alerts, dirty closes, cache pressure, ticket-key add/remove, "
             "byte-level edits of ids/tickets/identities, re-offers under other suite/version/EMS; fixed aimed histories sweep clock jumps and every byte of the ticket header. Oracle: whenever the server completes as resumed the presented identifier must be one this server issued, "
             "unexpired, not invalidated, key still loaded, same version/suite/EMS and same secret."),
    "C19": dict(engine="fault", level="fault_enumeration", design="10/C19",
        technique="deterministic simulation with allocator and entropy-read fault injection: exhaustive single-fault enumeration per scenario plus seeded multi-fault sequences",
        text="21 scenarios (key loading, session creation, full/resumed/client-auth/PSK handshakes per version incl. DTLS fragmentation, data with buffer growth, seven must-fail authentication scenarios) are first run fault-free to count allocations and entropy reads; "
             "then every allocation index is failed once (thorough: all; quick: all of the short scenarios, first 600 + stride of the long ones), every entropy read is failed, and seeded multi-fault/burst sequences are run. "
             "Oracle: no sanitizer report or signal, delivered data never altered, zero live library blocks after the application deleted its objects (leak attributed to the owning function by a frame-pointer backtrace), must-fail scenarios never complete. Remaining leak sites are recorded known findings."),
    "C04": dict(engine="auth", level="exploration", design="10/C04",
        technique="deterministic simulation: grid and seeded swarm of defective-peer handshakes with per-node simulated wall-clock jumps, forged credentials and a byzantine signer (psSign seam); callback-justification oracle",
        text="Every (version, key exchange, identity kind) x verifier role x one credential defect (unknown CA, expired / not yet valid by a wall-clock jump after key load, name mismatch, forged certificate signature, corrupted proof-of-possession signature) x callback policy; "
             "oracle: the verifier completes only if there was no defect or a registered callback was invoked with a non-zero alert and accepted it; proof-of-possession defects never complete; no-defect controls must complete."),
    "C07": dict(engine="nego", level="exploration", design="10/C07",
        technique="deterministic simulation: independently configured endpoint pairs (exhaustive over version-set pairs) with a man in the middle rewriting single hello fields; executable negotiation model as oracle",
        text="All 49 pairs of TLS version subsets (with and without TLS_FALLBACK_SCSV) and all DTLS pairs as fixed plans, plus a seeded swarm over suite offers, TLS 1.3 groups/key shares, EMS settings; 17 kinds of single-field rewrites of the transcript-covered ClientHello/ServerHello. "
             "Oracle: on completion the version is enabled on both sides, offered, and the highest common one; the suite was offered; both ends report identical parameters and exchange data; no rewritten hello ever leads to completion; SCSV against a server with a higher version fails."),
    "C06": dict(engine="msgseq", level="exploration", design="10/C06",
        technique="deterministic simulation: every single-step deviation (delete/duplicate/swap/substitute/inject) of every legal handshake trace by a man in the middle, plus a byzantine peer omitting mandatory messages through a guarded hook",
        text="16 handshake modes across TLS 1.1-1.3 and DTLS; fixed plans enumerate all single-step deviations at every plaintext handshake/CCS record position in both directions, seeded plans sample substitutions/injections; "
             "the byzantine peer is real MatrixSSL compiled with MATRIXSSL_VERIF skip points so both transcripts agree and only the receiver's state machine can refuse. Oracle: a receiver whose inbound sequence deviates never completes (protocol-mandated absorptions excepted); every legal trace completes (control)."),
    "C08": dict(engine="proto", level="exploration", design="10/C08",
        technique="deterministic simulation under ASan+UBSan: seeded on-path record edits (structure-blind and structure-aware), a byzantine peer editing plaintext before AEAD sealing, stream re-chunking; sanitizer, watchdog, return-code, allocation-bound and leak oracles",
        text="Live transcripts of TLS 1.1/1.2/1.3 and DTLS 1.0/1.2 (suite, auth, resumption, ticket-key rotation, PMTU, re-chunking) parked at arbitrary record boundaries; 1-5 edits per run: bit flips, boundary values in 1/2/3-byte fields, handshake/fragment header fields, "
             "record header fields, truncate/extend, consistent grow/shrink of a handshake message (all enclosing length fields adjusted), re-fragmentation, dup/drop/swap, forged/replayed/cross-session records, plaintext edits before sealing (post-decryption parsers). "
             "Oracles: no ASan report or signal, no UBSan report, every API call returns within a 30 s watchdog with a documented status, no allocation above 1 MiB, I/O buffers within SSL_MAX_BUF_SIZE, zero live library blocks after sessions/keys are deleted. Sampled, not exhaustive: mutations of live transcripts, no coverage guidance."),
    "C20": dict(engine="threads", level="exploration", design="10/C20",
        technique="deterministic simulation of real threads: one-at-a-time execution under a seeded scheduler with a scheduling point at every seam call, hand-off hidden from ThreadSanitizer; TSan and ASan builds; history-based serializability oracle",
        text="2-4 real pthreads each running full / id- / ticket- / TLS 1.3 PSK-resumed handshakes with data and closure plus ticket-key rotation against one shared server key set, shared or per-thread client key sets, the global session cache and the PRNG. "
             "The scheduler (token passing over futexes in an uninstrumented translation unit) picks the next thread at every mutex lock/unlock, allocation, clock and entropy call: random with per-run switch probability and seam subset, or PCT-style priorities. "
             "Oracles: no ThreadSanitizer report (its happens-before graph holds only the library's own locks), no ASan/UBSan report on the same plans, no deadlock (wait-for check whenever a thread blocks on a modelled mutex), every session completes with exact data, "
             "each resumption decision is one that some sequential order consistent with the recorded invoke/return sequence numbers allows (ticket-key deletion before / concurrent with / after the resumption)."),
    "C10": dict(engine="interop", level="exploration", design="10/C10",
        technique="deterministic simulation with an independent stack as the peer: OpenSSL (static, in-process, RNG replaced by a seeded stream, clock simulated) against MatrixSSL over the simulated transport with benign re-chunking; enumerated mutual matrix plus seeded swarm",
        text="Both role assignments x TLS 1.1/1.2/1.3 x all 18 TLS<=1.2 suites both stacks have (RSA, ECDHE-RSA, ECDHE-ECDSA; AES-CBC-SHA/SHA256/SHA384, AES-GCM) and the three TLS 1.3 suites x RSA-2048 / P-256 / P-384 / P-521 identities x P-256/P-384/P-521/X25519 "
             "key exchange incl. HelloRetryRequest x client authentication x session-id, RFC 5077 ticket and TLS 1.3 PSK resumption (1-2 resumed connections) x EMS on/off x payload lengths 1..33000 both ways x four re-chunking modes. "
             "Oracle: both ends complete, agree on version and on resumed/not, payloads byte-exact; a failure is reported only if MatrixSSL<->MatrixSSL and OpenSSL<->OpenSSL both pass the same configuration (else counted not_mutual). DTLS, PSK, DHE-RSA and static-ECDH suites are outside this workload."),
}

NOT_APPLICABLE = [
    ("C03", "Chain validation is a pure function of (chain, anchors, CRLs, time): input generation, not a schedule/fault space; its clock dependence is exercised inside C04."),
    ("C05", "Name matching is a pure string function; no schedule, clock, fault or interleaving."),
    ("C09", "Parsers are pure functions of input bytes (files are read whole, then parsed from memory); allocation/read failures during loading are covered by C19."),
    ("C11", "Signature/public-key primitives are pure functions of (key, message, signature)."),
    ("C12", "Digests, MACs, KDFs, ciphers and AEADs are pure functions of their inputs and call partition."),
    ("C13", "Bignum arithmetic is a pure function of its operands."),
]

PENDING = {  # claimed by the design, engine not yet registered: listed as not_applicable with that reason until the check exists
    k: "not claimed yet: the simulation engine for this property (DESIGN.md section 10) is not registered at this commit"
    for k in ["C04", "C06", "C07", "C08", "C10", "C14", "C16", "C17", "C18", "C19", "C20"]
}

def main():
    import importlib.util, os
    extra = os.path.join(os.path.dirname(__file__), "manifest_extra.json")
    checks = dict(CHECKS)
    pending = {k: v for k, v in PENDING.items() if k not in CHECKS}
    if os.path.exists(extra):
        e = json.load(open(extra))
        checks.update(e.get("checks", {}))
        pending.update(e.get("pending", {}))
    m = {
        "version": 1,
        "setup_cmd": "python3 tools/gen_build.py asan && python3 tools/gen_build.py tsan" if "C20" in checks else "python3 tools/gen_build.py asan",
        "hooks": {
            "guard": "MATRIXSSL_VERIF",
            "enable": "tools/gen_build.py compiles every library source of /repo's working tree (commands derived from the repo's own makefiles by `make -n -B`) with -DMATRIXSSL_VERIF plus the allocator macro seam (-D'Malloc(s)=vsim_malloc(...)') and links with -Wl,--wrap=... seams; the repository's own makefiles never define the guard",
            "baseline_off_cmd": "bash /verif/tools/baseline_off.sh",
            "source_commits": repo_commits("hook:"),
            "add_only": True,
        },
        "engines": [
            {"name": "proto", "path": "sim/proto.cc", "serves_properties": [k for k, v in checks.items() if v["engine"] == "proto"],
             "kind_free_text": "one client/server pair + on-path adversary + explicit op schedule, discrete steps, crash-isolated seeded workers"},
        ],
        "checks": [],
        "not_applicable": [{"property_id": k, "reason": r} for k, r in NOT_APPLICABLE] + [{"property_id": k, "reason": r} for k, r in sorted(pending.items())],
        "notes": "Deterministic simulation with fault injection; see DESIGN.md. fix: commits in /repo: " + ", ".join(repo_commits("fix:")),
    }
    engines = {}
    for k, v in checks.items():
        engines.setdefault(v["engine"], []).append(k)
    m["engines"] = [{"name": e, "path": "sim/", "serves_properties": sorted(ps), "kind_free_text": "see DESIGN.md section 5"} for e, ps in sorted(engines.items())]
    for k in sorted(checks):
        v = checks[k]
        m["checks"].append({
            "property_id": k,
            "quick_cmd": "./check %s --tier quick" % k,
            "thorough_cmd": "./check %s --tier thorough" % k,
            "evidence_file": "evidence/%s.json" % k,
            "replay_cmd_template": "./check --replay {path}",
            "engine": v["engine"],
            "level_claimed": {"category": v["level"], "text": v["text"], "design_ref": v["design"]},
            "level_note": TRUSTED,
            "technique": v["technique"],
        })
    json.dump(m, open("/verif/MANIFEST.json", "w"), indent=1)
    print("MANIFEST.json: %d checks, %d not applicable" % (len(m["checks"]), len(m["not_applicable"])))

main()
